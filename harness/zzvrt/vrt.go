//go:build verif

// Package vrt is the harness API. Under the symbolic engine (gosym) every
// function here is intercepted by name; this file is the *native* implementation
// used when a counterexample or a path witness is replayed against the real
// build (go test -tags verif -overlay ...): values come from the replay file
// named by $VERIF_REPLAY.
package vrt

import (
	"encoding/json"
	"fmt"
	"os"
	"sort"
	"strings"
	"sync"
)

type replayFile struct {
	Harness   string            `json:"harness"`
	Vars      map[string]uint64 `json:"vars"`
	Choices   []int             `json:"choices"`
	Property  string            `json:"property"`
	Label     string            `json:"label"`
	Observes  []Observed        `json:"observes"`
	Decisions json.RawMessage   `json:"decisions"`
	Tier      int               `json:"tier"`
}

type Observed struct {
	Label string `json:"label"`
	Val   string `json:"val"`
}

var (
	mu        sync.Mutex
	rf        replayFile
	loaded    bool
	counts    = map[string]int{}
	choiceIdx int
	// results of the native run
	Violations []string
	AssumeFail []string
	Observes   []Observed
	Reached    = map[string]bool{}
	tempDirs   []string
)

func load() {
	if loaded {
		return
	}
	loaded = true
	p := os.Getenv("VERIF_REPLAY")
	if p == "" {
		panic("vrt: VERIF_REPLAY not set (native harness runs only replay engine output)")
	}
	b, err := os.ReadFile(p)
	if err != nil {
		panic(err)
	}
	if err := json.Unmarshal(b, &rf); err != nil {
		panic(err)
	}
}

// Harness returns the harness name recorded in the replay file.
func Harness() string { load(); return rf.Harness }

func next(name string) uint64 {
	mu.Lock()
	defer mu.Unlock()
	load()
	n := counts[name]
	counts[name] = n + 1
	return rf.Vars[fmt.Sprintf("%s#%d", name, n)] // absent = unconstrained = 0
}

func U8(name string) uint8   { return uint8(next(name)) }
func U16(name string) uint16 { return uint16(next(name)) }
func U32(name string) uint32 { return uint32(next(name)) }
func U64(name string) uint64 { return next(name) }
func I32(name string) int32  { return int32(next(name)) }
func I64(name string) int64  { return int64(next(name)) }
func Int(name string) int    { return int(next(name)) }
func Bool(name string) bool  { return next(name) != 0 }

// Bytes returns n fresh symbolic bytes.
func Bytes(name string, n int) []byte {
	b := make([]byte, n)
	for i := range b {
		b[i] = uint8(next(name))
	}
	return b
}

// String returns a string of n fresh symbolic bytes.
func String(name string, n int) string { return string(Bytes(name, n)) }

// Choice forks the path over 0..n-1 (a recorded decision, not a solver variable).
func Choice(name string, n int) int {
	mu.Lock()
	defer mu.Unlock()
	load()
	if n <= 1 {
		return 0
	}
	if choiceIdx >= len(rf.Choices) {
		panic("vrt: replay file has too few choices at " + name)
	}
	c := rf.Choices[choiceIdx]
	choiceIdx++
	return c
}

func Assume(c bool) {
	if !c {
		mu.Lock()
		AssumeFail = append(AssumeFail, "assume")
		mu.Unlock()
		panic(assumeFailed{})
	}
}

type assumeFailed struct{}

func Assert(label string, c bool) {
	mu.Lock()
	Reached[label] = true
	if !c {
		Violations = append(Violations, label)
	}
	mu.Unlock()
}

// AssertKnown is Assert with a known-finding classifier: isKnown describes the
// inputs of the finding registered as knownID in known_findings.json.
func AssertKnown(label, knownID string, isKnown, c bool) {
	mu.Lock()
	Reached[label] = true
	if !c {
		if isKnown {
			Violations = append(Violations, label+" [known:"+knownID+"]")
		} else {
			Violations = append(Violations, label)
		}
	}
	mu.Unlock()
}

func Fail(label string) { Assert(label, false) }

func Reach(label string) {
	mu.Lock()
	Reached[label] = true
	mu.Unlock()
}

// All is a non-short-circuit conjunction (one solver term instead of forks).
func All(cs ...bool) bool {
	for _, c := range cs {
		if !c {
			return false
		}
	}
	return true
}

// Any is a non-short-circuit disjunction.
func Any(cs ...bool) bool {
	for _, c := range cs {
		if c {
			return true
		}
	}
	return false
}

// Implies is a non-short-circuit implication.
func Implies(a, b bool) bool { return !a || b }

// Ite is a non-forking conditional on integers.
func IteU64(c bool, a, b uint64) uint64 {
	if c {
		return a
	}
	return b
}

func IteU32(c bool, a, b uint32) uint32 {
	if c {
		return a
	}
	return b
}

func IteU16(c bool, a, b uint16) uint16 {
	if c {
		return a
	}
	return b
}

func IteInt(c bool, a, b int) int {
	if c {
		return a
	}
	return b
}

// BytesEq compares two byte slices without forking per byte.
func BytesEq(a, b []byte) bool { return string(a) == string(b) }

// Observe records a value for translator validation (engine prediction vs. native run).
func Observe(label string, v interface{}) {
	mu.Lock()
	Observes = append(Observes, Observed{label, fmtObs(v)})
	mu.Unlock()
}

func fmtObs(v interface{}) string {
	switch x := v.(type) {
	case []byte:
		return fmt.Sprintf("%x", x)
	case string:
		return fmt.Sprintf("%x", x)
	case bool:
		if x {
			return "1"
		}
		return "0"
	case error:
		if x == nil {
			return "nil"
		}
		return "err"
	case nil:
		return "nil"
	}
	return fmt.Sprintf("%d", v)
}

// Summarize replaces a pure byte-folding function by an uninterpreted fold for the rest
// of the path (engine only; natively the real function runs).
func Summarize(fn string) {}

// BytesLen returns a byte slice of (possibly symbolic) length n whose contents are
// never inspected by the engine (len/cap only).
func BytesLen(name string, n int) []byte { return make([]byte, n) }

// ExactFmt makes the engine format symbolic integers exactly (forking over their
// values) instead of printing a placeholder. Needed only where formatted text is parsed back.
func ExactFmt(on bool) {}

// Log prints a debugging line (engine: only with GOSYM_LOG set).
func Log(format string, args ...interface{}) {
	if os.Getenv("VRT_LOG") != "" {
		fmt.Fprintf(os.Stderr, "vrt.Log: "+format+"\n", args...)
	}
}

// Tier is 0 for the quick tier and 1 for the thorough tier.
func Tier() int { load(); return rf.Tier }

// Symbolic reports whether the harness runs under the symbolic engine.
func Symbolic() bool { return false }

// TempDir returns a fresh directory (model FS under the engine, real one natively).
func TempDir() string {
	d, err := os.MkdirTemp("", "vrt")
	if err != nil {
		panic(err)
	}
	mu.Lock()
	tempDirs = append(tempDirs, d)
	mu.Unlock()
	return d
}

// SnapshotDir copies directory src (files only, one level) into a fresh directory and returns
// its path: the on-disk state a process killed at this instant would leave behind.
func SnapshotDir(src string) string {
	dst := TempDir()
	ents, err := os.ReadDir(src)
	if err != nil {
		panic(err)
	}
	for _, e := range ents {
		if e.IsDir() {
			continue
		}
		b, err := os.ReadFile(src + "/" + e.Name())
		if err != nil {
			panic(err)
		}
		if err := os.WriteFile(dst+"/"+e.Name(), b, 0644); err != nil {
			panic(err)
		}
	}
	return dst
}

// Cleanup removes directories handed out by TempDir.
func Cleanup() {
	for _, d := range tempDirs {
		os.RemoveAll(d)
	}
	tempDirs = nil
}

// Scheduler controls (no-ops natively; native replay of schedules goes through hooks).
func SchedMode(maxPreempt int) {}
func EagerSpawn(on bool)       {}
func ExploreOrder(on bool)     {}
func Drain()                   {}
func QlzBoth()                 {}

// QlzReal makes the engine execute the LLVM IR of the current quicklz/quicklz.c for
// qlz_compress/qlz_decompress instead of the contract stub (natively: no-op, the real C runs).
func QlzReal() {}

// KnownMemError classifies engine-detected memory-safety violations whose description contains
// pattern as the known finding id (see known_findings.json); any other engine-detected violation
// is still reported. Natively a no-op: the native confirmation is AddressSanitizer's report.
func KnownMemError(id, pattern string) {}
func KillOthers()              {}
func Yield(label string)       {}
func DeadlockIsViolation()     {}
func AllocLimit(n int)         {}
func StepLimit(n int)          {}
func DecisionLimit(n int)      {}

// Tag attaches a label to the current path (shows up in evidence samples).
func Tag(s string) {}

// Result of a native replay run, printed by the replay test.
func Report() string {
	mu.Lock()
	defer mu.Unlock()
	var sb strings.Builder
	for _, v := range Violations {
		fmt.Fprintf(&sb, "NATIVE-VIOLATION %s\n", v)
	}
	for range AssumeFail {
		fmt.Fprintf(&sb, "NATIVE-ASSUME-FAILED\n")
	}
	// observes: compare with prediction
	load()
	mism := 0
	for i, o := range Observes {
		if i < len(rf.Observes) {
			if rf.Observes[i] != o {
				mism++
				fmt.Fprintf(&sb, "NATIVE-OBSERVE-MISMATCH %d %s: engine=%s native=%s\n", i, o.Label, rf.Observes[i].Val, o.Val)
			}
		}
	}
	if len(Observes) != len(rf.Observes) {
		fmt.Fprintf(&sb, "NATIVE-OBSERVE-COUNT engine=%d native=%d\n", len(rf.Observes), len(Observes))
	}
	var rs []string
	for r := range Reached {
		rs = append(rs, r)
	}
	sort.Strings(rs)
	fmt.Fprintf(&sb, "NATIVE-DONE violations=%d observes=%d mismatches=%d reached=%s\n", len(Violations), len(Observes), mism, strings.Join(rs, ","))
	return sb.String()
}

// RunNative runs harness fn, converting a failed assumption into a clean stop.
func RunNative(fn func()) (panicked interface{}) {
	defer func() {
		if r := recover(); r != nil {
			if _, ok := r.(assumeFailed); ok {
				return
			}
			panicked = r
		}
	}()
	fn()
	return nil
}
