//go:build verif

package quicklz

import (
	vrt "github.com/douban/gobeansdb/zzvrt"
)

// C10-K1: Go QuickLZ round trip. Inputs of 1..10 bytes (every byte symbolic) are the
// literal-only regime of the format; longer inputs enter the match loop, whose hash-table
// index depends on the data (4096-way symbolic indexing per step) and are explored only with
// concrete repetitive bodies carrying a symbolic tail (the last 4 bytes are always literals).
func VH_C10_K1_go_roundtrip() {
	level := []int{1, 3}[vrt.Choice("level", 2)]
	var src []byte
	if vrt.Choice("regime", 2) == 0 {
		n := 1 + vrt.Choice("len", 10)
		src = vrt.Bytes("b", n)
	} else {
		n := []int{11, 12, 16, 40, 64}[vrt.Choice("biglen", 5)]
		src = make([]byte, n)
		for i := range src {
			src[i] = byte("abcabcab"[i%8])
		}
		tail := vrt.Bytes("tail", 2)
		src[n-1], src[n-2] = tail[0], tail[1]
	}
	c := Compress(src, level)
	vrt.Assert("header-sizes", vrt.All(SizeCompressed(c) == len(c), SizeDecompressed(c) == len(src)))
	d := Decompress(c)
	vrt.Assert("roundtrip", len(d) == len(src) && vrt.BytesEq(d, src))
	d2, err := DecompressSafe(c)
	vrt.Assert("safe-roundtrip", err == nil && len(d2) == len(src) && vrt.BytesEq(d2, src))
}

// C10-K2: the safe decompressor never lets a panic escape and never returns output whose
// length differs from the header, whatever bytes it is given.
func VH_C10_K2_go_safe() {
	vrt.AllocLimit(1 << 16)
	n := 9 + vrt.Choice("extra", 5) // 9..13 input bytes
	src := vrt.Bytes("b", n)
	// bound: the claimed decompressed size is at most 12 bytes (the allocation and the copy
	// loops are proportional to it); the 3-byte-header form is excluded (needs b[0]&2 == 0)
	vrt.Assume(src[0]&2 == 2)
	vrt.Assume(vrt.All(src[5] <= 12, src[6] == 0, src[7] == 0, src[8] == 0))
	d, err := DecompressSafe(src)
	if err == nil {
		vrt.Assert("output-length-is-header", len(d) == int(src[5]))
		vrt.Assert("input-length-is-header", n == int(src[1])|int(src[2])<<8|int(src[3])<<16|int(src[4])<<24)
	} else {
		vrt.Reach("rejected")
	}
}
