//go:build verif

package quicklz

import (
	"github.com/douban/gobeansdb/cmem"
	vrt "github.com/douban/gobeansdb/zzvrt"
)

// C10-K1: Go QuickLZ round trip. Inputs of 1..10 bytes (every byte symbolic) are the
// literal-only regime of the format; longer inputs enter the match loop, whose hash-table
// index depends on the data (4096-way symbolic indexing per step) and are explored only with
// concrete periodic bodies (period 1, 2, 3, 4, 8) carrying a symbolic tail (the last 4 bytes are always literals).
func VH_C10_K1_go_roundtrip() {
	level := []int{1, 3}[vrt.Choice("level", 2)]
	var src []byte
	if vrt.Choice("regime", 2) == 0 {
		n := 1 + vrt.Choice("len", 10)
		src = vrt.Bytes("b", n)
	} else {
		src = repetitive()
	}
	c := Compress(src, level)
	vrt.Assert("header-sizes", vrt.All(SizeCompressed(c) == len(c), SizeDecompressed(c) == len(src)))
	d := Decompress(c)
	vrt.Assert("roundtrip", len(d) == len(src) && vrt.BytesEq(d, src))
	d2, err := DecompressSafe(c)
	vrt.Assert("safe-roundtrip", err == nil && len(d2) == len(src) && vrt.BytesEq(d2, src))
}

// C10-K2: the safe decompressor never lets a panic escape and never returns output whose
// length differs from the header, whatever bytes it is given.
func VH_C10_K2_go_safe() {
	vrt.AllocLimit(1 << 16)
	n := 9 + vrt.Choice("extra", 5) // 9..13 input bytes
	src := vrt.Bytes("b", n)
	// bound: the claimed decompressed size is at most 12 bytes (the allocation and the copy
	// loops are proportional to it); the 3-byte-header form is excluded (needs b[0]&2 == 0)
	vrt.Assume(src[0]&2 == 2)
	vrt.Assume(vrt.All(src[5] <= 12, src[6] == 0, src[7] == 0, src[8] == 0))
	d, err := DecompressSafe(src)
	if err == nil {
		vrt.Assert("output-length-is-header", len(d) == int(src[5]))
		vrt.Assert("input-length-is-header", n == int(src[1])|int(src[2])<<8|int(src[3])<<16|int(src[4])<<24)
	} else {
		vrt.Reach("rejected")
	}
}

// cbytes copies b into C-allocated memory of exactly len(b) bytes (an exact-size object both for
// the engine and, natively, for AddressSanitizer's red zones).
func cbytes(b []byte) cmem.CArray {
	var a cmem.CArray
	vrt.Assume(a.Alloc(len(b)))
	copy(a.Body, b)
	return a
}

// C10-K3: the C implementation (quicklz.c, executed from the LLVM IR of the current source)
// and the Go implementation decompress each other's output to the original.
// regime 0: inputs of 1..10 bytes, every byte symbolic (neither compressor enters its match
// loop); regime 1: 11..14 bytes, every byte symbolic, compressed by C only (the C match loop runs
// for 1..4 positions; the hash table is a sparse region with solver-decided aliasing; the Go
// compressor's 4096-way table index is outside reach for free bytes); regime 2: concrete periodic
// bodies (period 1, 2, 3, 4, 8) of 11..64 bytes with a symbolic 2-byte tail, both directions (matches are
// found and emitted by both compressors).
func VH_C10_K3_cross() {
	vrt.QlzReal()
	vrt.KnownMemError("F22", "qlz_decompress: read")
	var src []byte
	goToo := true
	switch vrt.Choice("regime", 3) {
	case 0:
		src = vrt.Bytes("b", 1+vrt.Choice("len", 10))
	case 1:
		src = vrt.Bytes("b", 11+vrt.Choice("len", tiered(4, 6)))
		goToo = false
	default:
		src = repetitive()
	}
	n := len(src)
	orig := append([]byte(nil), src...)
	cc, ok := CCompress(src)
	vrt.Assume(ok)
	c := cc.Body
	vrt.Assert("c-header-sizes", vrt.All(SizeCompressed(c) == len(c), SizeDecompressed(c) == n))
	vrt.Assert("c-compress-leaves-source", vrt.BytesEq(src, orig))
	d := Decompress(c)
	vrt.Assert("go-decompresses-c", len(d) == n && vrt.BytesEq(d, orig))
	cexact := cbytes(c) // as read back from a data file: an object of exactly the stream's length
	cc.Free()
	d2, err := CDecompressSafe(cexact.Body)
	vrt.Assert("c-decompresses-c", err == nil && len(d2.Body) == n && vrt.BytesEq(d2.Body, orig))
	d2.Free()
	cexact.Free()
	if goToo {
		g := cbytes(Compress(orig, 3))
		d3, err := CDecompressSafe(g.Body)
		vrt.Assert("c-decompresses-go", err == nil && len(d3.Body) == n && vrt.BytesEq(d3.Body, orig))
		d3.Free()
		g.Free()
	}
}

// C10-K4: CDecompressSafe on arbitrary bytes: no access of the real C decompressor leaves the
// source, destination or scratch object (engine-detected; natively: AddressSanitizer), no panic
// escapes, and a successful result has the length announced by the header.
func VH_C10_K4_c_safe() {
	vrt.QlzReal()
	// F22 covers every out-of-object access of qlz_decompress on a crafted stream: reads of the
	// source/destination and (at the thorough bounds) writes past the destination
	vrt.KnownMemError("F22", "qlz_decompress:")
	vrt.AllocLimit(1 << 16)
	n := 9 + vrt.Choice("extra", tiered(5, 8)) // 9..13 (thorough 9..16) input bytes
	raw := vrt.Bytes("b", n)
	// bound: 9-byte header form, claimed decompressed size at most 12 (thorough 16) bytes
	vrt.Assume(raw[0]&2 == 2)
	vrt.Assume(vrt.All(int(raw[5]) <= tiered(12, 16), raw[6] == 0, raw[7] == 0, raw[8] == 0))
	src := cbytes(raw)
	if vrt.Choice("slack", 2) == 1 {
		// the same stream at the start of a larger allocation: fetches past the end of the stream
		// stay inside the object, so the accesses behind them (match sources before the
		// destination, writes) are reached as well
		src.Free()
		src = cbytes(append(raw, make([]byte, 16)...))
		src.Body = src.Body[:n]
	}
	d, err := CDecompressSafe(src.Body)
	if err == nil {
		vrt.Assert("output-length-is-header", len(d.Body) == int(raw[5]))
		d.Free()
	} else {
		vrt.Reach("rejected")
	}
	src.Free()
}

// repetitive returns a concrete periodic body (period 1, 2, 3, 4 or 8: runs, alternations and
// longer repeats, so that matches at every small offset are found and emitted) of 11..64 bytes
// whose last two bytes are symbolic.
func repetitive() []byte {
	pat := []string{"a", "ab", "abc", "abcd", "abcabcab"}[vrt.Choice("pattern", 5)]
	n := []int{11, 12, 16, 24, 40, 64}[vrt.Choice("biglen", 6)]
	src := make([]byte, n)
	for i := range src {
		src[i] = pat[i%len(pat)]
	}
	tail := vrt.Bytes("tail", 2)
	src[n-1], src[n-2] = tail[0], tail[1]
	return src
}

func tiered(quick, thorough int) int {
	if vrt.Tier() > 0 {
		return thorough
	}
	return quick
}
