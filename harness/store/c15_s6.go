//go:build verif

package store

import (
	"bytes"
	"fmt"
	"os"
	"strconv"
	"strings"

	"github.com/douban/gobeansdb/cmem"
	"github.com/douban/gobeansdb/config"
	vrt "github.com/douban/gobeansdb/zzvrt"
)

// ---- C15-S6: several buckets on the (model) file system ----

// bucketHashHook routes keys of the form "<x>..." (first byte x) to the hash x<<56 | low bits
// of the real hash, so the leading hex digits of the key hash are the two nibbles of x.
func bucketHashHook() {
	getKeyHash = func(key []byte) uint64 {
		if len(key) == 0 {
			return getKeyHashDefalut(key)
		}
		return uint64(key[0])<<56 | getKeyHashDefalut(key)>>8
	}
}

func s6Conf(dir string, nb int, served []int) {
	Conf.InitDefault()
	Conf.NumBucket = nb
	Conf.BucketsStat = make([]int, nb)
	for _, b := range served {
		Conf.BucketsStat[b] = 1
	}
	Conf.Home = dir
	Conf.TreeHeight = 3
	Conf.Init()
	Conf.DataFileMax = 1024
	Conf.SplitCap = 4
	Conf.IndexIntervalSize = 300
	Conf.BufIOCap = 4096
	Conf.FlushWake = 1 << 40
	Conf.TreeDump = 3
	config.MCConf.BodyMax = 256
	config.MCConf.BodyInC = 0
	config.MCConf.MaxKeyLen = 250
	SecsBeforeDump = 0
}

// treeFiles returns every regular file below dir (recursively) with its bytes.
func treeFiles(dir string) map[string]string {
	out := map[string]string{}
	var walk func(d, rel string, depth int)
	walk = func(d, rel string, depth int) {
		f, err := os.Open(d)
		if err != nil || depth > 4 {
			return
		}
		names, _ := f.Readdirnames(-1)
		f.Close()
		for _, name := range names {
			st, err := os.Stat(d + "/" + name)
			if err != nil {
				continue
			}
			if st.IsDir() {
				walk(d+"/"+name, rel+name+"/", depth+1)
				continue
			}
			b, _ := os.ReadFile(d + "/" + name)
			out[rel+name] = string(b)
		}
	}
	walk(dir, "", 0)
	return out
}

func s6set(st *HStore, key string, body []byte, flag uint32) error {
	ki := NewKeyInfoFromBytes([]byte(key), 0, false)
	p := &Payload{Meta: Meta{Flag: flag, TS: 1}}
	allocBody(p, body)
	cmem.DBRL.SetData.AddSizeAndCount(p.CArray.Cap)
	return st.Set(ki, p)
}

func s6get(st *HStore, key string) (body []byte, flag uint32, found bool, err error) {
	ki := NewKeyInfoFromBytes([]byte(key), 0, false)
	p, _, err := st.Get(ki, false)
	if err != nil || p == nil {
		return nil, 0, false, err
	}
	body, flag, found = append([]byte{}, p.Body...), p.Flag, p.Ver > 0
	cmem.DBRL.GetData.SubSizeAndCount(p.CArray.Cap)
	p.CArray.Free()
	return
}

func s6open() *HStore {
	st, err := NewHStore()
	vrt.Assert("store-opens", err == nil)
	vrt.Drain()
	sleepMs(30)
	return st
}

// bucketDirOf: the documented directory of a bucket below home ("" / "x" / "x/y").
func bucketDirOf(nb, id int) string {
	switch nb {
	case 16:
		return fmt.Sprintf("%x", id)
	case 256:
		return fmt.Sprintf("%x/%x", id/16, id%16)
	}
	return ""
}

// C15-S6a: for EVERY bucket id (the key's first byte is symbolic, so its bucket is): a key is
// stored by the bucket named by the leading hex digits of its hash and only files below that
// bucket's directory change; if the server does not serve that bucket nothing at all changes
// on disk and a get reports a miss. 16 and 256 buckets, two served buckets.
func VH_C15_S6_routing_footprint() {
	vrt.Summarize("crc32_write")
	bucketHashHook()
	nb := []int{16, 256}[vrt.Choice("buckets", 2)]
	served := map[int][]int{16: {0x3, 0xa}, 256: {0x3a, 0x05}}[nb]
	dir := vrt.TempDir()
	s6Conf(dir, nb, served)
	st := s6open()
	before := treeFiles(dir)
	x := vrt.U8("first-key-byte")
	key := string([]byte{x, 'k', 'e', 'y'})
	body := vrt.Bytes("body", 1)
	flag := vrt.U32("flag") &^ (FLAG_COMPRESS | FLAG_CLIENT_COMPRESS)
	err := s6set(st, key, body, flag)
	vrt.Assert("set-returns-no-error", err == nil)
	st.flushdatas(true)
	sbid := int(x)
	if nb == 16 {
		sbid = int(x >> 4)
	}
	// one path per bucket id (the comparison forks; bid is concrete afterwards)
	bid := -1
	for b := 0; b < nb; b++ {
		if sbid == b {
			bid = b
			break
		}
	}
	vrt.Assert("bucket-id-in-range", bid >= 0)
	isServed := bid == served[0] || bid == served[1]
	after := treeFiles(dir)
	gb, gf, found, gerr := s6get(st, key)
	if isServed {
		vrt.Assert("served-key-readable", gerr == nil && found && gf == flag && vrt.BytesEq(gb, body))
		prefix := bucketDirOf(nb, bid) + "/"
		changed := 0
		for name, content := range after {
			if before[name] != content {
				changed++
				vrt.Assert("only-the-owning-bucket-directory-is-written", strings.HasPrefix(name, prefix))
			}
		}
		vrt.Assert("record-was-stored", changed > 0)
		recs, ok := scanFile(dir + "/" + prefix + "000.data")
		vrt.Assert("record-in-owning-bucket-data-file", ok && len(recs) == 1 && recs[0].key == key)
	} else {
		vrt.Assert("unserved-bucket-reports-a-miss", gerr == nil && !found && gb == nil)
		same := len(after) == len(before)
		for name, content := range after {
			same = same && before[name] == content
		}
		vrt.Assert("unserved-bucket-stores-nothing", same)
	}
	st.Close()
}

// parseListing parses "x/ hash count" lines of an upper-level directory listing.
func parseListing(b []byte) (hash [16]uint64, count [16]int, ok bool) {
	lines := bytes.Split(bytes.TrimSuffix(b, []byte("\n")), []byte("\n"))
	if len(lines) != 16 {
		return
	}
	for i, l := range lines {
		f := strings.Fields(string(l))
		if len(f) != 3 || f[0] != fmt.Sprintf("%x/", i) {
			return
		}
		h, err1 := strconv.ParseUint(f[1], 10, 64)
		c, err2 := strconv.Atoi(f[2])
		if err1 != nil || err2 != nil {
			return
		}
		hash[i], count[i] = h, c
	}
	return hash, count, true
}

func (st *HStore) s6list(path string) []byte {
	ki := &KeyInfo{KeyIsPath: true, Key: []byte(path), StringKey: path}
	b, err := st.ListDir(ki)
	vrt.Assert("listing-no-error", err == nil)
	return b
}

// C15-S6b: directory listings above bucket level are exactly the aggregate of the roots of the
// SERVED buckets: with 16 buckets "@" shows per bucket its root (hash, number of live keys) and
// 0 0 for every bucket not served; with 256 buckets "@" aggregates sixteen buckets per line
// (hash = fold h*97 + child, count = sum) and "@x" shows the roots. This must also hold after a
// restart under a route table that no longer serves a bucket whose data is still on disk:
// that bucket lists as 0 0, its keys miss, and writes to it store nothing.
func VH_C15_S6_upper_listing() {
	vrt.Summarize("crc32_write")
	bucketHashHook()
	nb := []int{16, 256}[vrt.Choice("buckets", 2)]
	A, B := 0x3, 0xa
	if nb == 256 {
		A, B = 0x3a, 0x35 // same upper digit: one "@" line aggregates both
		if vrt.Bool("different-upper-digit") {
			B = 0xa5
		}
	}
	byteOf := func(b int) byte {
		if nb == 16 {
			return byte(b << 4)
		}
		return byte(b)
	}
	dir := vrt.TempDir()
	s6Conf(dir, nb, []int{A, B})
	st := s6open()
	keysA := []string{string([]byte{byteOf(A), '1'}), string([]byte{byteOf(A), '2'}), string([]byte{byteOf(A), '3'})}
	keysB := []string{string([]byte{byteOf(B), '1'}), string([]byte{byteOf(B), '2'})}
	for i, k := range append(append([]string{}, keysA...), keysB...) {
		vrt.Assert("set-ok", s6set(st, k, []byte{byte('a' + i)}, uint32(i)) == nil)
	}
	// a delete in A: counts are numbers of LIVE keys
	ki := NewKeyInfoFromBytes([]byte(keysA[2]), 0, false)
	vrt.Assert("delete-ok", st.Set(ki, GetPayloadForDelete()) == nil)
	st.flushdatas(true)
	check := func(where string, servedNow map[int]int) {
		// servedNow: bucket -> expected number of live keys
		roots := map[int]*Node{}
		for b := range servedNow {
			roots[b] = st.buckets[b].htree.Update()
			vrt.Assert(where+":bucket-root-count-is-live-keys", int(roots[b].count) == servedNow[b])
		}
		if nb == 16 {
			h, c, ok := parseListing(st.s6list(""))
			vrt.Assert(where+":top-listing-well-formed", ok)
			for i := 0; i < 16; i++ {
				if r, isServed := roots[i]; isServed {
					vrt.Assert(where+":served-bucket-line-is-its-root", h[i] == uint64(r.hash) && c[i] == int(r.count))
				} else {
					vrt.Assert(where+":unserved-bucket-line-is-empty", h[i] == 0 && c[i] == 0)
				}
			}
			return
		}
		top, topc, ok := parseListing(st.s6list(""))
		vrt.Assert(where+":top-listing-well-formed", ok)
		for hi := 0; hi < 16; hi++ {
			var wantH uint16
			wantC := 0
			any := false
			for lo := 0; lo < 16; lo++ {
				wantH *= 97
				if r, isServed := roots[hi*16+lo]; isServed {
					wantH += r.hash
					wantC += int(r.count)
					any = true
				}
			}
			vrt.Assert(where+":top-line-is-aggregate-of-served-roots", top[hi] == uint64(wantH) && topc[hi] == wantC)
			if !any {
				continue
			}
			h, c, ok := parseListing(st.s6list(fmt.Sprintf("%x", hi)))
			vrt.Assert(where+":second-level-listing-well-formed", ok)
			for lo := 0; lo < 16; lo++ {
				if r, isServed := roots[hi*16+lo]; isServed {
					vrt.Assert(where+":served-bucket-line-is-its-root", h[lo] == uint64(r.hash) && c[lo] == int(r.count))
				} else {
					vrt.Assert(where+":unserved-bucket-line-is-empty", h[lo] == 0 && c[lo] == 0)
				}
			}
		}
	}
	check("both-served", map[int]int{A: 2, B: 2})
	st.Close()
	// B is routed away; its directory and data stay on disk
	s6Conf(dir, nb, []int{A})
	st = s6open()
	check("b-routed-away", map[int]int{A: 2})
	_, _, found, gerr := s6get(st, keysB[0])
	vrt.Assert("key-of-unserved-bucket-misses", gerr == nil && !found)
	before := treeFiles(dir)
	vrt.Assert("set-to-unserved-ok", s6set(st, keysB[1], []byte("zz"), 9) == nil)
	st.flushdatas(true)
	after := treeFiles(dir)
	same := len(after) == len(before)
	for name, content := range after {
		same = same && before[name] == content
	}
	vrt.Assert("set-to-unserved-bucket-stores-nothing", same)
	gb, _, found, gerr := s6get(st, keysA[0])
	vrt.Assert("served-bucket-unaffected", gerr == nil && found && string(gb) == "a")
	st.Close()
}

// C15-S6c: a route change at run time (ChangeRoute hot-unloads a bucket, waiting ten seconds
// before closing it). From the moment the route table no longer lists the bucket the server
// does not serve it: a set during the grace period stores nothing, a get misses; after the
// change returned the bucket's directory holds nothing written since; the other bucket keeps
// serving; loading the bucket again brings its old keys back.
func VH_C15_S6_change_route() {
	vrt.Summarize("crc32_write")
	bucketHashHook()
	dir := vrt.TempDir()
	s6Conf(dir, 16, []int{3, 5})
	st := s6open()
	k3, k5, k3new := string([]byte{0x30, 'a'}), string([]byte{0x50, 'a'}), string([]byte{0x30, 'n'})
	vrt.Assert("set-3", s6set(st, k3, []byte("three"), 1) == nil)
	vrt.Assert("set-5", s6set(st, k5, []byte("five"), 2) == nil)
	st.flushdatas(true)
	newConf := config.DBRouteConfig{NumBucket: 16, BucketsStat: make([]int, 16)}
	newConf.BucketsStat[5] = 1
	doneCh := make(chan error, 1)
	before := treeFiles(dir)
	go func() {
		_, _, err := st.ChangeRoute(newConf)
		doneCh <- err
	}()
	sleepMs(2000) // inside the grace period of the unload
	vrt.Assert("route-table-switched", Conf.BucketsStat[3] == 0)
	vrt.Assert("set-during-grace-period-accepted-silently", s6set(st, k3new, vrt.Bytes("late", 1), 7) == nil)
	_, _, found, gerr := s6get(st, k3)
	vrt.Assert("get-of-unrouted-bucket-misses-during-grace-period", gerr == nil && !found)
	_, _, found, gerr = s6get(st, k3new)
	vrt.Assert("late-key-misses", gerr == nil && !found)
	gb, _, found, gerr := s6get(st, k5)
	vrt.Assert("other-bucket-keeps-serving", gerr == nil && found && string(gb) == "five")
	vrt.Assert("change-route-ok", <-doneCh == nil)
	after := treeFiles(dir)
	for name, content := range after {
		if strings.HasPrefix(name, "3/") && strings.HasSuffix(name, ".data") {
			vrt.Assert("nothing-stored-for-the-unrouted-bucket-after-the-switch", before[name] == content)
		}
	}
	_, _, found, gerr = s6get(st, k3)
	vrt.Assert("get-of-unrouted-bucket-misses", gerr == nil && !found)
	// route the bucket back: its data is served again
	back := config.DBRouteConfig{NumBucket: 16, BucketsStat: make([]int, 16)}
	back.BucketsStat[3], back.BucketsStat[5] = 1, 1
	_, _, err := st.ChangeRoute(back)
	vrt.Assert("hot-load-ok", err == nil)
	vrt.Drain()
	sleepMs(30)
	gb, _, found, gerr = s6get(st, k3)
	vrt.Assert("reloaded-bucket-serves-its-old-key", gerr == nil && found && string(gb) == "three")
	_, _, found, _ = s6get(st, k3new)
	vrt.Assert("late-key-was-never-stored", !found)
	st.Close()
}
