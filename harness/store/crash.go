//go:build verif

package store

import (
	"os"
	"path/filepath"

	"github.com/douban/gobeansdb/cmem"
	vrt "github.com/douban/gobeansdb/zzvrt"
)

// ---- history bookkeeping for crash oracles ----

type verRec struct {
	ver  int32
	body []byte
	flag uint32
}

type crashModel struct {
	hist    map[string][]verRec // every version ever written per key (tombstones: ver<0)
	durable map[string]int32    // version of the last write known flushed to its data file
}

func newCrashModel(keys ...string) *crashModel {
	cm := &crashModel{hist: map[string][]verRec{}, durable: map[string]int32{}}
	for _, k := range keys {
		cm.durable[k] = 0
	}
	return cm
}

func (cm *crashModel) record(s *scen, key string) {
	m := s.model[key]
	cm.hist[key] = append(cm.hist[key], verRec{m.ver, append([]byte{}, m.body...), m.flag})
}

// everything written so far is on disk (called after a completed flush)
func (cm *crashModel) allDurable(s *scen) {
	for k, m := range s.model {
		cm.durable[k] = m.ver
	}
}

func (cm *crashModel) snapshotDurable() map[string]int32 {
	d := map[string]int32{}
	for k, v := range cm.durable {
		d[k] = v
	}
	return d
}

// recoverAndCheck opens the snapshot and checks the C06 statement: every key reads a value
// that was really written for it and is at least as new as the durable one.
func (cm *crashModel) recoverAndCheck(s *scen, snap string, durable map[string]int32, mustOpen bool, knownID string, known bool) {
	Conf.Home = snap
	st, err := NewHStore()
	if err != nil {
		vrt.Assert("refuses-to-start-only-after-a-torn-append", !mustOpen)
		return
	}
	vrt.Drain()
	sleepMs(30)
	for _, key := range s.keys {
		ki := NewKeyInfoFromBytes([]byte(key), 0, false)
		p, _, err := st.Get(ki, false)
		if err != nil {
			vrt.Log("recovered get %s: %v", key, err)
		}
		if knownID != "" {
			vrt.AssertKnown("recovered:get-answers", knownID, known, err == nil)
		} else {
			vrt.Assert("recovered:get-answers", err == nil)
		}
		if err != nil {
			continue
		}
		dv := abs32(durable[key])
		if p == nil || p.Ver < 0 {
			// a miss/tombstone: fine if nothing was durable, or some delete at least as new was written
			ok := durable[key] == 0
			for _, h := range cm.hist[key] {
				if h.ver < 0 && abs32(h.ver) >= dv {
					ok = true
				}
			}
			vrt.Assert("recovered:miss-only-if-nothing-durable-or-deleted", ok)
			if p != nil {
				cmem.DBRL.GetData.SubSizeAndCount(p.CArray.Cap)
				p.CArray.Free()
			}
			continue
		}
		written := false
		for _, h := range cm.hist[key] {
			if h.ver == p.Ver && len(h.body) == len(p.Body) {
				written = vrt.Any(written, vrt.All(vrt.BytesEq(h.body, p.Body), h.flag == p.Flag))
			}
		}
		vrt.Assert("recovered:value-was-really-written-for-this-key", written)
		vrt.Assert("recovered:at-least-as-new-as-durable", p.Ver >= dv)
		cmem.DBRL.GetData.SubSizeAndCount(p.CArray.Cap)
		p.CArray.Free()
	}
	st.Close()
}

var normalOpPoints = []string{"set:after-append", "set:after-tree", "flush:enter", "flush:written-not-detached", "flush:done",
	"hint:before-dump", "hint:tmp-written", "hint:after-dump",
	"close:after-flush", "close:after-collisions", "close:after-hints", "tree:after-remove-old", "tree:tmp-written", "close:after-tree"}

// C06-X1: the process is killed at a control point of normal operation (writes, flush, hint
// dump, shutdown incl. tree dump); the directory as it is at that instant is reopened.
func VH_C06_X1_kill_normal_op() {
	s := newScen(512, false, "ka", "kb")
	cm := newCrashModel("ka", "kb")
	point := normalOpPoints[vrt.Choice("point", len(normalOpPoints))]
	occ := vrt.Choice("occurrence", 4)
	var snap string
	var durable map[string]int32
	done := atPoint(point, occ, func() {
		snap = vrt.SnapshotDir(s.dir)
		durable = cm.snapshotDurable()
	})
	w := func(key string) { s.setS(key); cm.record(s, key) }
	w("ka")
	w("kb") // file0 full
	s.flush()
	cm.allDurable(s)
	w("ka") // file1 (rotation), buffered
	if vrt.Bool("delete") {
		s.del("kb")
		cm.record(s, "kb")
	} else {
		w("kb")
	}
	if vrt.Bool("flush") {
		s.flush()
		cm.allDurable(s)
	}
	s.bkt().hints.dumpAndMerge(false) // what the periodic hint dumper does
	w("ka")                           // file2
	s.st.Close()
	cm.allDurable(s)
	vrt.Assume(done())
	cm.recoverAndCheck(s, snap, durable, true, "", false)
}

// C06-X1b: torn last append: the snapshot's newest data file is cut at every block boundary
// and at header/unaligned positions inside the last record.
func VH_C06_X1_torn_append() {
	s := newScen(1024, false, "ka", "kb")
	cm := newCrashModel("ka", "kb")
	w := func(key string) { s.setS(key); cm.record(s, key) }
	w("ka")
	w("kb")
	s.flush()
	cm.allDurable(s)
	durable := cm.snapshotDurable()
	w("ka")
	w("kb")
	s.flush() // the kill happens inside this write: only a prefix of it reached the disk
	snap := vrt.SnapshotDir(s.dir)
	path := genDataPath(snap, 0)
	st, _ := os.Stat(path)
	full := st.Size() // 1024: four one-block records
	cuts := []int64{512, 512 + 1, 512 + 24, 512 + 25, 512 + 255, 768, 768 + 24, 768 + 200, full}
	cut := cuts[vrt.Choice("cut", len(cuts))]
	vrt.Assert("truncate", os.Truncate(path, cut) == nil)
	aligned := cut%256 == 0
	// whole records that survive the cut are durable as well
	if cut >= 768 {
		durable["ka"] = cm.hist["ka"][1].ver
	}
	if cut >= full {
		durable["kb"] = cm.hist["kb"][1].ver
	}
	cm.recoverAndCheck(s, snap, durable, aligned, "", false)
}

// C06-X1c: a hint split dumped while its records are still in the write buffer (rotation flush
// has not run) followed by a kill: the store must still serve the durable older value.
func VH_C06_X1_hint_ahead_of_data() {
	s := newScen(512, false, "ka", "kb")
	cm := newCrashModel("ka", "kb")
	release := make(chan struct{})
	park := false
	VerifHook = func(p string) {
		if p == "flush:enter" && park {
			<-release
		}
	}
	s.setS("ka")
	cm.record(s, "ka")
	s.flush()
	cm.allDurable(s)
	durable := cm.snapshotDurable()
	park = true
	s.setRaw("ka", vrt.Bytes("v2", 1), 0) // file0, buffered (file0 now full)
	cm.record(s, "ka")
	s.setRaw("kb", vrt.Bytes("vb", 1), 0) // rotates to file1: the flush of file0 is parked
	cm.record(s, "kb")
	s.bkt().hints.dumpAndMerge(false) // dumps the hints of file0 (no longer the newest chunk)
	snap := vrt.SnapshotDir(s.dir)
	VerifHook = nil
	vrt.KillOthers()
	cm.recoverAndCheck(s, snap, durable, true, "F8", true)
	_ = release
}

var gcCrashPoints = []string{"gc:start", "gc:before-copy", "gc:after-copy", "gc:before-hint", "gc:before-clear", "gc:after-clear",
	"gc:after-nextgc", "gc:dst-switch", "gc:before-truncate", "gc:after-truncate", "hint:tmp-written", "hint:after-dump"}

// C07-X2: the process is killed at a control point inside a GC pass; after restart every key
// reads exactly its pre-GC value (no client writes during GC).
func VH_C07_X2_kill_during_gc() {
	s := newScen(512, false, "ka", "kb", "kc")
	s.setS("ka") // file0
	s.setS("kb") // file0
	s.setS("ka") // file1  (ka@0 superseded)
	s.setS("kc") // file1
	s.setS("kb") // file2  (kb@0 superseded)
	s.del("kc")  // file2
	s.setS("ka") // file3 = head
	s.flush()
	rebuilt := false
	if vrt.Tier() > 0 || true {
		if vrt.Bool("restart-first") {
			s.reopen(7) // GC on a store whose indexes were all rebuilt from data
			rebuilt = true
		}
	}
	_ = rebuilt
	point := gcCrashPoints[vrt.Choice("point", len(gcCrashPoints))]
	occ := vrt.Choice("occurrence", 3)
	var snap string
	done := atPoint(point, occ, func() { snap = vrt.SnapshotDir(s.dir) })
	ranges := [][2]int{{0, 2}, {1, 2}, {0, 0}}
	if vrt.Tier() > 0 {
		ranges = [][2]int{{0, 0}, {0, 1}, {0, 2}, {1, 1}, {1, 2}, {2, 2}}
	}
	r := ranges[vrt.Choice("range", len(ranges))]
	s.gc(r[0], r[1], vrt.Bool("merge"))
	vrt.Assume(done())
	// F21: an in-place rewrite that was killed before its final truncate leaves, behind the
	// rewritten prefix, stale records of keys whose newer record now sits at a lower offset
	stale := false
	dumps, _ := filepath.Glob(snap + "/*.idx.hash")
	for c := 0; c <= 3 && len(dumps) == 0; c++ { // F21 needs the tree to be rebuilt: no tree dump survives
		recs, _ := scanFile(genDataPath(snap, c))
		for i := range recs {
			for j := i + 1; j < len(recs); j++ {
				if recs[i].key == recs[j].key && abs32(recs[j].ver) < abs32(recs[i].ver) {
					stale = true
				}
			}
		}
	}
	// recovery on the snapshot: the model is the pre-GC model (GC changes nothing observable)
	Conf.Home = snap
	old := s.st
	s.open()
	s.checkAllKnown("after-kill-and-restart", "F21", stale)
	s.st.Close()
	_ = old
}

// C06-X1d: several hint splits per data file (split capacity 2): a kill after a flush that
// followed a split rotation must not hide the flushed boundary record.
func VH_C06_X1_kill_hint_splits() {
	scenSplitCap = 2
	s := newScen(1024, false, "ka", "kb", "kc", "kd")
	cm := newCrashModel("ka", "kb", "kc", "kd")
	point := []string{"flush:done", "flush:written-not-detached", "hint:after-dump", "hint:tmp-written", "set:after-tree"}[vrt.Choice("point", 5)]
	occ := vrt.Choice("occurrence", 4)
	var snap string
	var durable map[string]int32
	done := atPoint(point, occ, func() {
		snap = vrt.SnapshotDir(s.dir)
		durable = cm.snapshotDurable()
	})
	w := func(key string) { s.setS(key); cm.record(s, key) }
	w("ka")
	w("kb") // split 0 of file0 is full
	s.flush()
	cm.allDurable(s)
	w("kc") // rotates to split 1: split 0 is dumped
	s.flush()
	cm.allDurable(s)
	w("ka") // overwrite in split 1
	w("kd") // fills file0 (four blocks), rotates the split again
	s.flush()
	cm.allDurable(s)
	vrt.Assume(done())
	cm.recoverAndCheck(s, snap, durable, true, "", false)
}

// C07-X2b: in-place compaction that shifts live records to lower offsets inside the same file
// (a dead record first, live ones after it), killed at every control point, with a tree dump
// on disk when the pass starts (store reopened before GC) or not.
func VH_C07_X2_kill_inplace_shift() {
	s := newScen(768, false, "ka", "kb", "kc", "kd")
	s.setS("ka") // file0: ka (dead after the overwrite below), kb, kc
	s.setS("kb")
	s.setS("kc")
	s.setS("ka") // file1
	s.setS("kd")
	s.setS("kd") // file1 full
	s.setS("kd") // file2 = head
	s.flush()
	if vrt.Bool("reopen-first") {
		s.reopen(vrt.Choice("rm0", 2) * 7) // a tree dump exists when the pass starts
	}
	point := gcCrashPoints[vrt.Choice("point", len(gcCrashPoints))]
	occ := vrt.Choice("occurrence", 3)
	var snap string
	done := atPoint(point, occ, func() { snap = vrt.SnapshotDir(s.dir) })
	r := [][2]int{{0, 0}, {0, 1}}[vrt.Choice("range", 2)]
	s.gc(r[0], r[1], vrt.Bool("merge"))
	vrt.Assume(done())
	stale := false
	dumps, _ := filepath.Glob(snap + "/*.idx.hash")
	for c := 0; c <= 3 && len(dumps) == 0; c++ {
		recs, _ := scanFile(genDataPath(snap, c))
		for i := range recs {
			for j := i + 1; j < len(recs); j++ {
				if recs[i].key == recs[j].key && abs32(recs[j].ver) < abs32(recs[i].ver) {
					stale = true
				}
			}
		}
	}
	Conf.Home = snap
	s.open()
	s.checkAllKnown("after-kill-and-restart", "F21", stale)
	s.st.Close()
}

// checkRecovered checks the C06 statement on an already opened store.
func (cm *crashModel) checkRecovered(s *scen, st *HStore, durable map[string]int32, where string) {
	for _, key := range s.keys {
		ki := NewKeyInfoFromBytes([]byte(key), 0, false)
		p, _, err := st.Get(ki, false)
		if err != nil {
			vrt.Log("%s get %s: %v", where, key, err)
		}
		vrt.Assert(where+":get-answers", err == nil)
		if err != nil {
			continue
		}
		dv := abs32(durable[key])
		if p == nil || p.Ver < 0 {
			ok := durable[key] == 0
			for _, h := range cm.hist[key] {
				if h.ver < 0 && abs32(h.ver) >= dv {
					ok = true
				}
			}
			vrt.Assert(where+":miss-only-if-nothing-durable-or-deleted", ok)
			if p != nil {
				cmem.DBRL.GetData.SubSizeAndCount(p.CArray.Cap)
				p.CArray.Free()
			}
			continue
		}
		written := false
		for _, h := range cm.hist[key] {
			if h.ver == p.Ver && len(h.body) == len(p.Body) {
				written = vrt.Any(written, vrt.All(vrt.BytesEq(h.body, p.Body), h.flag == p.Flag))
			}
		}
		vrt.Assert(where+":value-was-really-written-for-this-key", written)
		vrt.Assert(where+":at-least-as-new-as-durable", p.Ver >= dv)
		cmem.DBRL.GetData.SubSizeAndCount(p.CArray.Cap)
		p.CArray.Free()
	}
}

// adopt makes the reference model equal to what the recovered store serves (after a kill the
// writes that were not durable may or may not have survived; later version numbers continue
// from the recovered state).
func (cm *crashModel) adopt(s *scen) {
	for _, key := range s.keys {
		ki := NewKeyInfoFromBytes([]byte(key), 0, false)
		p, _, err := s.st.Get(ki, false)
		m := &mval{}
		if err == nil && p != nil {
			m.ver = p.Ver
			if p.Ver > 0 {
				m.body, m.flag, m.written = append([]byte{}, p.Body...), p.Flag, true
				m.vhash = Getvhash(m.body)
			}
			cmem.DBRL.GetData.SubSizeAndCount(p.CArray.Cap)
			p.CArray.Free()
		}
		s.model[key] = m
	}
}

var twoKillPoints = []string{"set:after-append", "set:after-tree", "flush:enter", "flush:written-not-detached", "flush:done", "hint:tmp-written", "hint:after-dump"}

// C06-X1e: two kills. Run 1 writes and shuts down cleanly; run 2 works in the fresh head chunk
// (more distinct keys than a hint split holds, so a split of the head chunk is dumped, possibly
// before the chunk's data file exists) and is killed at a control point; run 3 recovers (C06
// statement checked), writes and flushes again into the same chunk number and is killed at a
// control point; run 4 recovers: every key reads a value really written for it, at least as new
// as what was durable at the second kill.
func VH_C06_X1_two_kills() {
	scenSplitCap = 2
	s := newScen(1024, false, "ka", "kb", "kc")
	s.distinct = true
	cm := newCrashModel("ka", "kb", "kc")
	w := func(key string) { s.setS(key); cm.record(s, key) }
	w("ka")
	w("kb")
	w("kc")
	s.reopen(0) // clean shutdown: everything durable, next write opens a fresh chunk
	cm.allDurable(s)
	// ---- run 2, killed
	p1 := twoKillPoints[vrt.Choice("point1", len(twoKillPoints))]
	var snap1 string
	var durable1 map[string]int32
	done1 := atPoint(p1, vrt.Choice("occurrence1", 3), func() {
		snap1 = vrt.SnapshotDir(s.dir)
		durable1 = cm.snapshotDurable()
	})
	w("ka")
	w("kb")
	w("kc") // third distinct key: hint split 0 of the head chunk rotates
	s.bkt().hints.dumpAndMerge(false)
	if vrt.Bool("flush-in-run2") {
		s.flush()
		cm.allDurable(s)
	}
	w("ka")
	s.bkt().hints.dumpAndMerge(false)
	vrt.Assume(done1())
	// ---- run 3 on the directory the first kill left
	Conf.Home = snap1
	s.dir = snap1
	s.open()
	cm.checkRecovered(s, s.st, durable1, "after-first-kill")
	cm.adopt(s)
	cm.durable = durable1
	p2 := []string{"flush:done", "set:after-tree", "hint:after-dump", "flush:written-not-detached"}[vrt.Choice("point2", 4)]
	var snap2 string
	var durable2 map[string]int32
	done2 := atPoint(p2, vrt.Choice("occurrence2", 2), func() {
		snap2 = vrt.SnapshotDir(s.dir)
		durable2 = cm.snapshotDurable()
	})
	w("ka")
	if vrt.Bool("two-writes-in-run3") {
		w("kb")
	}
	s.flush()
	cm.allDurable(s)
	w("kc")
	s.flush()
	cm.allDurable(s)
	s.bkt().hints.dumpAndMerge(false)
	vrt.Assume(done2())
	// ---- run 4
	cm.recoverAndCheck(s, snap2, durable2, true, "", false)
}

// staleTail reports the F21 situation in a snapshot: no tree dump survives and some data file
// holds, behind a newer record of a key, an older record of the same key.
func staleTail(snap string, nChunks int) bool {
	dumps, _ := filepath.Glob(snap + "/*.idx.hash")
	if len(dumps) > 0 {
		return false
	}
	stale := false
	for c := 0; c < nChunks; c++ {
		recs, _ := scanFile(genDataPath(snap, c))
		for i := range recs {
			for j := i + 1; j < len(recs); j++ {
				if recs[i].key == recs[j].key && abs32(recs[j].ver) < abs32(recs[i].ver) {
					stale = true
				}
			}
		}
	}
	return stale
}

// C07-X2c: kill inside a pass whose destination is an earlier short file and whose sources are
// mostly live: the destination fills in the middle of a source file and the pass goes on
// rewriting that source in place (gc:dst-switch). Snapshot at every GC control point x
// occurrence 0..5, with per-file hint files on disk when the pass starts (clean restart first)
// or only those the pass itself dumps; after restart every key reads its pre-GC value.
func VH_C07_X2_kill_dst_switch() {
	scenSplitCap = 2 // hint splits of the destination fill up and rotate during the pass
	s := newScen(768, false, "ka", "kb", "kc", "kd", "ke", "kf", "kg")
	s.setS("ka") // file0, left short (1 or 2 records) by the restart below
	if vrt.Bool("two-in-file0") {
		s.setS("kg")
	}
	s.reopen(0)
	s.setS("kb")
	s.setS("kc")
	s.setS("kd") // file1: all live
	s.setS("ke")
	s.setS("kf")
	if vrt.Bool("file2-has-garbage") {
		s.setS("ka") // supersedes ka@0
	} else {
		s.setS("kg")
	} // file2
	s.setS("kg") // head
	s.flush()
	if vrt.Bool("clean-restart-before-gc") {
		s.reopen(0) // every chunk now has dumped hint files and a tree dump exists
	}
	point := gcCrashPoints[vrt.Choice("point", len(gcCrashPoints))]
	occ := vrt.Choice("occurrence", 6)
	var snap string
	done := atPoint(point, occ, func() { snap = vrt.SnapshotDir(s.dir) })
	s.gc(1, 2, vrt.Bool("merge"))
	vrt.Assume(done())
	stale := staleTail(snap, 6)
	Conf.Home = snap
	s.open()
	s.checkAllKnown("after-kill-and-restart", "F21", stale)
	s.st.Close()
}

// C07-X2d: kill in the middle of a file the pass REWRITES IN PLACE. The GC history file
// (nextgc.txt) is rewritten with open(O_TRUNC) + write after every collected source file; a
// kill between the two leaves it empty (or, on some file systems, holding garbage or missing).
// The directory snapshot taken at a control point after the first source file is modified
// accordingly; after restart every key still reads its pre-GC value - the store must come up.
func VH_C07_X2_torn_gc_history() {
	s := newScen(512, false, "ka", "kb", "kc")
	s.distinct = true
	s.setS("ka") // file0
	s.setS("kb") // file0
	s.setS("ka") // file1  (ka@0 superseded)
	s.setS("kc") // file1
	s.setS("kb") // file2  (kb@0 superseded)
	s.del("kc")  // file2
	s.setS("ka") // file3 = head
	s.flush()
	if vrt.Bool("earlier-pass-wrote-the-history-file") {
		s.gc(0, 0, false)
	}
	point := []string{"gc:after-clear", "gc:after-nextgc", "gc:before-truncate", "gc:after-truncate", "gc:dst-switch"}[vrt.Choice("point", 5)]
	occ := vrt.Choice("occurrence", 3)
	var snap string
	done := atPoint(point, occ, func() { snap = vrt.SnapshotDir(s.dir) })
	r := [][2]int{{0, 2}, {1, 2}}[vrt.Choice("range", 2)]
	s.gc(r[0], r[1], vrt.Bool("merge"))
	vrt.Assume(done())
	hist := snap + "/nextgc.txt"
	switch vrt.Choice("torn-history-file", 4) {
	case 0: // as the snapshot has it
	case 1: // truncated by the open, not yet written
		vrt.Assert("write-empty", writeFileBytes(hist, nil) == nil)
	case 2: // garbage
		vrt.Assert("write-garbage", writeFileBytes(hist, []byte{0, 0xff, 'x'}) == nil)
	case 3:
		os.Remove(hist)
	}
	stale := staleTail(snap, 4)
	Conf.Home = snap
	s.open()
	s.checkAllKnown("after-kill-and-restart", "F21", stale)
	s.st.Close()
}
