//go:build verif

package store

import (
	vrt "github.com/douban/gobeansdb/zzvrt"
)

type c14item struct {
	h   uint64
	key string
	ver int32
	vh  uint16
	off uint32
}

func c14less(a, b c14item) bool {
	return vrt.Any(a.h < b.h, vrt.All(a.h == b.h, a.key < b.key))
}

func c14mk(tag string, klen int) c14item {
	return c14item{h: vrt.U64(tag + ".h"), key: vrt.String(tag+".k", klen), ver: vrt.I32(tag + ".ver"), vh: vrt.U16(tag + ".vh"), off: vrt.U32(tag+".off") &^ 0xff}
}

func c14same(it *HintItem, m c14item) bool {
	return vrt.All(it.Keyhash == m.h, it.Key == m.key, it.Ver == m.ver, it.Vhash == m.vh, it.Pos.Offset == m.off)
}

// writes items (already in (hash,key) order) with the real writer
func c14write(path string, items []c14item, datasize uint32) {
	w, err := newHintFileWriter(path, datasize, 4096)
	vrt.Assert("writer-opens", err == nil)
	for _, m := range items {
		w.writeItem(newHintItem(m.h, m.ver, m.vh, Position{0, m.off}, m.key))
	}
	vrt.Assert("writer-closes", w.close() == nil)
}

func c14sorted(tag string, n int) []c14item {
	items := make([]c14item, n)
	for i := range items {
		items[i] = c14mk(tag, 1)
		if i > 0 {
			vrt.Assume(c14less(items[i-1], items[i]))
		}
	}
	return items
}

// C14-U1: a hint file read back yields exactly the items written, in key-hash order, with the
// recorded data size; the sparse index points at item starts; HintBuffer.Dump sorts.
func VH_C14_U1_roundtrip() {
	c08Conf(1, 3)
	Conf.IndexIntervalSize = 300 // an index entry roughly every second item
	dir := vrt.TempDir()
	n := vrt.Choice("n", 4) // 0..3 items
	buf := NewHintBuffer()
	Conf.SplitCap = 8
	var items []c14item
	for i := 0; i < n; i++ {
		m := c14mk("it", 1)
		// distinct (hash,key) pairs: a second Set of the same pair would overwrite
		for _, o := range items {
			vrt.Assume(!vrt.All(o.h == m.h, o.key == m.key))
		}
		items = append(items, m)
		ok := buf.Set(newHintItem(m.h, m.ver, m.vh, Position{0, m.off}, m.key), 256)
		vrt.Assert("buffer-accepts", ok)
	}
	path := dir + "/000.000.idx.s"
	idx, err := buf.Dump(path)
	vrt.Assert("dump-ok", err == nil)
	r := newHintFileReader(path, 0, 4096)
	vrt.Assert("reader-opens", r.open() == nil)
	vrt.Assert("datasize-recorded", vrt.All(r.datasize == buf.maxoffset, idx.datasize == buf.maxoffset, r.numKey == n))
	var prev *HintItem
	seen := 0
	for {
		it, err := r.next()
		vrt.Assert("read-no-error", err == nil)
		if it == nil || err != nil {
			break
		}
		seen++
		found := false
		for _, m := range items {
			found = vrt.Any(found, c14same(it, m))
		}
		vrt.Assert("item-read-was-written", found)
		if prev != nil {
			vrt.Assert("hash-key-order", vrt.Any(prev.Keyhash < it.Keyhash, vrt.All(prev.Keyhash == it.Keyhash, prev.Key < it.Key)))
		}
		prev = it
	}
	r.close()
	vrt.Assert("all-items-read", seen == n)
	idx2, err := loadHintIndex(path)
	vrt.Assert("index-loads", err == nil)
	if err == nil {
		vrt.Assert("index-same-as-writer", len(idx2.index) == len(idx.index))
	}
}

// C14-U2: lookup in a hint file is total and exact: the item iff (hash,key) is present,
// otherwise (nil, nil): never an error, never another item.
func VH_C14_U2_lookup() {
	c08Conf(1, 3)
	Conf.IndexIntervalSize = 300
	dir := vrt.TempDir()
	n := 2 + vrt.Choice("n", 3) // 2..4 items
	items := c14sorted("it", n)
	path := dir + "/000.000.idx.s"
	c14write(path, items, 4096)
	idx, err := loadHintIndex(path)
	vrt.Assert("index-loads", err == nil)
	ph, pk := vrt.U64("probe.h"), vrt.String("probe.k", 1)
	got, err := idx.get(ph, pk)
	want := -1
	for i, m := range items {
		if vrt.All(m.h == ph, m.key == pk) {
			want = i
		}
	}
	// F12: the end-of-items test fires late when the probe lies beyond the last index entry
	known := want < 0 && len(idx.index) >= 2
	vrt.AssertKnown("lookup-never-errors", "F12", known, err == nil)
	if err == nil {
		if want >= 0 {
			vrt.Assert("present-item-found", got != nil)
			if got != nil {
				vrt.Assert("found-item-exact", c14same(got, items[want]))
			}
		} else {
			vrt.Assert("absent-item-not-found", got == nil)
		}
	}
}

// C14-U3: merging hint files yields, per (hash,key), the entry with the greatest (file,offset)
// position, sorted, and reports every group of different keys sharing a hash.
func VH_C14_U3_merge() {
	c08Conf(1, 3)
	Conf.IndexIntervalSize = 300
	Conf.NoMerged = false
	dir := vrt.TempDir()
	nsrc := 2
	if vrt.Tier() > 0 {
		nsrc = 2 + vrt.Choice("nsrc", 2)
	}
	var all [][]c14item
	var readers []*hintFileReader
	for s := 0; s < nsrc; s++ {
		n := 1 + vrt.Choice("n", 2)
		items := c14sorted("it", n)
		all = append(all, items)
		p := getIndexPath(dir, s, 0, "s")
		c14write(p, items, uint32(256*(s+1)))
		readers = append(readers, newHintFileReader(p, s, 4096))
	}
	ct := newCollisionTable()
	state := 0
	dst := getIndexPath(dir, nsrc-1, 0, "m")
	// mode 0: ordinary merge writing the merged file; mode 1: the merge GC runs before a pass
	// (forGC: no output file, collision table only); mode 2: hint_no_merged configuration
	mode := vrt.Choice("mode", 3)
	Conf.NoMerged = mode == 2
	idx, err := merge(readers, dst, ct, &state, mode == 1)
	Conf.NoMerged = false
	if mode == 0 {
		vrt.Assert("merge-ok", vrt.All(err == nil, idx != nil))
	} else {
		vrt.Assert("merge-without-output-ok", vrt.All(err == nil, idx == nil))
		_, serr := os_Stat(dst)
		vrt.Assert("no-merged-file-written", serr != nil)
	}
	// expected winner per (hash,key): the item from the highest chunk (ties cannot occur: one
	// item per (hash,key) per file)
	r := newHintFileReader(dst, 0, 4096)
	if mode == 0 {
		vrt.Assert("merged-opens", r.open() == nil)
	}
	var prev *HintItem
	count := 0
	for mode == 0 {
		it, err := r.next()
		vrt.Assert("merged-read-ok", err == nil)
		if it == nil || err != nil {
			break
		}
		count++
		if prev != nil {
			vrt.Assert("merged-sorted-unique", vrt.Any(prev.Keyhash < it.Keyhash, vrt.All(prev.Keyhash == it.Keyhash, prev.Key < it.Key)))
		}
		prev = it
		// winner: no source item with the same (hash,key) comes from a higher chunk
		isWinner := false
		beaten := false
		for s, items := range all {
			for _, m := range items {
				same := vrt.All(m.h == it.Keyhash, m.key == it.Key)
				isWinner = vrt.Any(isWinner, vrt.All(same, it.Pos.ChunkID == s, it.Pos.Offset == m.off, it.Ver == m.ver, it.Vhash == m.vh))
				beaten = vrt.Any(beaten, vrt.All(same, s > it.Pos.ChunkID))
			}
		}
		vrt.Assert("merged-item-is-a-source-item", isWinner)
		vrt.Assert("merged-item-has-greatest-position", !beaten)
	}
	if mode == 0 {
		r.close()
	}
	// every source (hash,key) is represented
	distinct := 0
	for s, items := range all {
		for i, m := range items {
			first := true
			for s2, items2 := range all {
				for i2, m2 := range items2 {
					if s2 < s || (s2 == s && i2 < i) {
						first = vrt.All(first, !vrt.All(m2.h == m.h, m2.key == m.key))
					}
				}
			}
			if first {
				distinct++
			}
			// collision table: listed iff another source item has the same hash and a different key
			coll := false
			for _, items2 := range all {
				for _, m2 := range items2 {
					coll = vrt.Any(coll, vrt.All(m2.h == m.h, m2.key != m.key))
				}
			}
			_, listed := ct.get(m.h, m.key)
			_, grouped := ct.Items[m.h]
			vrt.Assert("collision-table-exact", vrt.All(listed == coll, grouped == coll))
		}
	}
	if mode == 0 {
		vrt.Assert("merged-count-is-number-of-distinct-keys", count == distinct)
	}
}
