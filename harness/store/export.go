//go:build verif

package store

// VrtFlush forces a flush of all write buffers (what the periodic flusher does).
func (store *HStore) VrtFlush() { store.flushdatas(true) }
