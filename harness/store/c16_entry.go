//go:build verif

package store

import (
	vrt "github.com/douban/gobeansdb/zzvrt"
)

// C16-K3e: the 64-bit key hash decided at its entry points only (getKeyHashDefalut and the
// getKeyHash variable), so the check survives any refactoring of the helpers behind them:
//   low half  = MurmurHash3-32 of the key (specification with explicit little-endian loads);
//   high half = signed-byte FNV-1a: whole function for short keys, and the extension lemma
//               hi(x||c) = (hi(x) xor sext(c)) * prime for longer ones (inductive step).
func VH_C16_K3_keyhash_entry() {
	hi := 16
	if vrt.Tier() > 0 {
		hi = 32
	}
	n := vrt.Choice("len", hi+1)
	b := vrt.Bytes("b", n)
	h := getKeyHashDefalut(b)
	vrt.Assert("low-half-is-murmur3-32", uint32(h) == refMurmur3_32(b))
	vrt.Assert("keyhash-via-var", getKeyHash(b) == h)
	if n <= 2 {
		vrt.Assert("high-half-is-signed-fnv1a", uint32(h>>32) == refFnv1aSigned(b))
	}
}

func VH_C16_K3_keyhash_entry_step() {
	_, hi := hashLens()
	n := vrt.Choice("len", hi+1)
	b := vrt.Bytes("b", n+1)
	c := b[n]
	x := uint32(c)
	x |= (0 - (x >> 7)) << 8
	vrt.Assert("high-half-extension-lemma", uint32(getKeyHashDefalut(b)>>32) == (uint32(getKeyHashDefalut(b[:n])>>32)^x)*16777619)
}
