//go:build verif

package store

import (
	"encoding/binary"
	"os"
	"path/filepath"
	"strings"

	vrt "github.com/douban/gobeansdb/zzvrt"
)

// ---- restart and GC on top of the scenario store ----

// reopen closes the store cleanly, removes the index files selected by mask
// (bit0: tree dumps *.idx.hash, bit1: per-file hints *.idx.s, bit2: merged hint *.idx.m)
// and opens it again.
func (s *scen) reopen(mask int) {
	s.st.Close()
	s.removeIndexes(mask)
	if mask&1 != 0 || mask == 8 {
		// a tree rebuilt from hints/data holds no entry for deleted keys: the version a LATER
		// write to such a key receives starts over (C02 speaks about what keys read back at
		// reopen, C01 about one process lifetime) - outside the oracle from here on
		for _, k := range s.keys {
			if m := s.model[k]; m != nil && m.ver < 0 {
				if s.noVersion == nil {
					s.noVersion = map[string]bool{}
				}
				s.noVersion[k] = true
			}
		}
	}
	s.open()
}

func (s *scen) removeIndexes(mask int) {
	names, _ := filepath.Glob(s.dir + "/*.idx.*")
	if mask&8 != 0 {
		// bit3: the tree dump and, per data file, only its highest-numbered hint split
		last := map[string]string{}
		for _, n := range names {
			if strings.HasSuffix(n, ".idx.s") {
				base := filepath.Base(n)
				if base > last[base[:3]] {
					last[base[:3]] = base
				}
			}
		}
		for _, n := range names {
			base := filepath.Base(n)
			if strings.HasSuffix(n, ".idx.hash") || (strings.HasSuffix(n, ".idx.s") && last[base[:3]] == base && !strings.HasSuffix(base, ".000.idx.s")) {
				os.Remove(n)
			}
		}
		return
	}
	for _, n := range names {
		switch {
		case strings.HasSuffix(n, ".idx.hash") && mask&1 != 0,
			strings.HasSuffix(n, ".idx.s") && mask&2 != 0,
			strings.HasSuffix(n, ".idx.m") && mask&4 != 0:
			os.Remove(n)
		}
	}
}

func (s *scen) bkt() *Bucket { return s.st.buckets[0] }

func (s *scen) gc(begin, end int, merge bool) {
	s.st.gcMgr.gc(s.bkt(), begin, end, merge)
	n := len(s.bkt().GCHistory)
	if s.bkt().GCHistory[n-1].Err != nil {
		vrt.Log("gc error: %v", s.bkt().GCHistory[n-1].Err)
	}
	vrt.Assert("gc-finished-without-error", s.bkt().GCHistory[n-1].Err == nil)
}

// small set with a 1-byte symbolic body (one 256-byte block)
func (s *scen) setS(key string) {
	v := vrt.Bytes("v."+key, 1)
	if s.distinct {
		if m := s.model[key]; m != nil && m.ver > 0 {
			vrt.Assume(Getvhash(v) != m.vhash)
		}
	}
	s.set(key, v, vrt.U32("f."+key)&^(FLAG_COMPRESS|FLAG_CLIENT_COMPRESS), 0)
}

// ---- independent record scanner (C18): walks a data file by the documented layout ----

type scanRec struct {
	off  uint32
	key  string
	ver  int32
	flag uint32
	body []byte
}

func scanFile(path string) (recs []scanRec, ok bool) {
	b, err := os.ReadFile(path)
	if err != nil {
		return nil, true // no file: nothing stored
	}
	if len(b)%256 != 0 {
		return nil, false
	}
	for off := 0; off < len(b); {
		h := b[off : off+24]
		ksz, vsz := int(binary.LittleEndian.Uint32(h[16:])), int(binary.LittleEndian.Uint32(h[20:]))
		if ksz < 1 || ksz > 250 || vsz < 0 || off+24+ksz+vsz > len(b) {
			return recs, false
		}
		r := scanRec{off: uint32(off), ver: int32(binary.LittleEndian.Uint32(h[12:])), flag: binary.LittleEndian.Uint32(h[8:])}
		r.key = string(b[off+24 : off+24+ksz])
		r.body = b[off+24+ksz : off+24+ksz+vsz]
		recs = append(recs, r)
		off += ((24 + ksz + vsz + 255) >> 8) << 8
	}
	return recs, true
}

// reclaimed asserts the C18 statement for chunks [begin,end] after a pass: every surviving
// record is the current record of its key (live value or retained tombstone), each once.
// tombstoneFree: GC started at file 0, so no tombstone of a key absent from the tree may remain.
func (s *scen) reclaimed(begin, end int, where string) {
	s.reclaimedKnown(begin, end, where, "", false)
}

// reclaimedKnown is reclaimed where a surviving superseded TOMBSTONE of a deleted key is
// classified as known finding id when cond holds (everything else stays a plain assertion).
func (s *scen) reclaimedKnown(begin, end int, where, id string, cond bool) {
	seen := map[string]bool{}
	for c := begin; c <= end; c++ {
		recs, ok := scanFile(genDataPath(s.dir, c))
		vrt.Assert(where+":file-well-formed", ok)
		for _, r := range recs {
			m := s.model[r.key]
			vrt.Assert(where+":record-of-a-known-key", m != nil)
			if m == nil {
				continue
			}
			oldTombstone := m.ver < 0 && r.ver < 0
			if id != "" && oldTombstone {
				vrt.AssertKnown(where+":each-key-at-most-once", id, cond, !seen[r.key])
			} else {
				vrt.Assert(where+":each-key-at-most-once", !seen[r.key])
			}
			seen[r.key] = true
			if m.ver > 0 {
				// a live key: the surviving record must be its current value (never a superseded
				// value, never a tombstone)
				vrt.Assert(where+":surviving-record-is-current", vrt.All(r.ver > 0, len(r.body) == len(m.body)) && vrt.All(vrt.BytesEq(r.body, m.body), r.flag&^FLAG_COMPRESS == m.flag))
			} else {
				// a deleted key: only its CURRENT tombstone may be retained (an older tombstone
				// or an older value is a superseded record)
				vrt.Assert(where+":only-tombstones-of-deleted-keys", r.ver < 0)
				if id != "" {
					vrt.AssertKnown(where+":retained-tombstone-is-the-current-one", id, cond, r.ver == m.ver)
				} else {
					vrt.Assert(where+":retained-tombstone-is-the-current-one", r.ver == m.ver)
				}
			}
		}
	}
}

// C02-S2: clean restart at the end of a short history preserves every key, whichever index
// files survive (8 deletion patterns), including after a second restart.
func VH_C02_S2_restart() {
	s := newScen(512, vrt.Bool("check_vhash"), "ka", "kb", "kc")
	// history: overwrites and a delete spread over three tiny files
	s.setS("ka")
	s.setS("kb")
	if vrt.Bool("flush-mid") {
		s.flush()
	}
	s.setS("ka") // file 1 (rotation): supersedes ka in file 0
	if vrt.Choice("del-or-set", 2) == 0 {
		s.del("kb")
	} else {
		s.setS("kc")
	}
	s.setS("kc") // file 2
	s.checkAll("before-restart")
	s.reopen(vrt.Choice("rm", 8))
	s.checkAll("after-restart")
	if vrt.Tier() > 0 {
		s.setS("kb")
		s.reopen(vrt.Choice("rm2", 8))
		s.checkAll("after-second-restart")
	}
	s.close()
}

// C03-S3 / C18-S8 skeleton "overwrite-chain": superseded versions before, inside and after the
// range; GC over a symbolic legal range with and without merge; reads unchanged, reclaimed,
// again after restart with any index subset removed, and after a second identical pass.
func VH_C03_S3_gc_overwrite_chain() {
	s := newScen(512, false, "ka", "kb", "kc")
	s.setS("ka") // file0
	s.setS("kb") // file0
	s.setS("ka") // file1  (ka@0 superseded)
	s.setS("kc") // file1
	s.setS("kb") // file2  (kb@0 superseded)
	s.del("kc")  // file2  (kc@1 superseded by tombstone)
	s.setS("ka") // file3 = head (ka@1 superseded)
	s.flush()
	begin := vrt.Choice("begin", 3)
	end := begin + vrt.Choice("len", 3-begin)
	merge := vrt.Bool("merge")
	s.gc(begin, end, merge)
	s.checkAll("after-gc")
	s.reclaimed(begin, end, "after-gc")
	switch vrt.Choice("then", 3) {
	case 0:
		s.reopen(vrt.Choice("rm", 8))
		s.checkAll("after-gc-restart")
	case 1:
		s.gc(begin, end, merge)
		s.checkAll("after-second-gc")
		s.reclaimed(begin, end, "after-second-gc")
	case 2:
		s.setS("kc")
		s.del("ka")
		s.checkAll("writes-after-gc")
		s.reopen(vrt.Choice("rm", 8))
		s.checkAll("writes-after-gc-restart")
	}
	s.close()
}

// C03-S3 skeleton "resurrection": a tombstone whose target lives in an uncollected earlier file
// must survive GC of the tombstone's file, also when all indexes are rebuilt afterwards.
func VH_C03_S3_gc_resurrection() {
	s := newScen(512, false, "ka", "kb")
	s.setS("ka") // file0
	s.setS("kb") // file0
	s.del("ka")  // file1: tombstone
	s.setS("kb") // file1
	s.setS("kb") // file2 = head
	s.flush()
	if vrt.Bool("restart-without-tree") {
		s.reopen(1 | 2*vrt.Choice("also-hints", 2))
	}
	s.gc(1, 1, vrt.Bool("merge"))
	s.checkAll("after-gc")
	s.reopen(vrt.Choice("rm", 8))
	s.checkAll("after-gc-restart")
	// a second pass from file 0 may now drop the tombstone together with its target
	s.gc(0, 1, vrt.Bool("merge2"))
	s.checkAll("after-full-gc")
	s.reclaimed(0, 1, "after-full-gc")
	s.reopen(7)
	s.checkAll("after-full-gc-restart")
	s.close()
}

func VH_dbg_gc22() {
	s := newScen(512, false, "ka", "kb", "kc")
	s.setS("ka") // file0
	s.setS("kb") // file0
	s.setS("ka") // file1  (ka@0 superseded)
	s.setS("kc") // file1
	s.setS("kb") // file2  (kb@0 superseded)
	s.del("kc")  // file2  (kc@1 superseded by tombstone)
	s.setS("ka") // file3 = head (ka@1 superseded)
	s.flush()
	for i := 0; i < 4; i++ {
		c := &s.bkt().datas.chunks[i]
		vrt.Log("chunk %d size %d whead %d nbuf %d", i, c.size, c.writingHead, len(c.wbuf))
	}
	s.gc(2, 2, false)
	g := s.bkt().GCHistory[0]
	vrt.Log("gc src %d dst %d before %d released %d notintree %d sizebefore %d", g.Src, g.Dst, g.NumBefore, g.NumReleased, g.NumNotInHtree, g.SizeBefore)
	for i := 0; i < 4; i++ {
		c := &s.bkt().datas.chunks[i]
		vrt.Log("chunk %d size %d whead %d nbuf %d", i, c.size, c.writingHead, len(c.wbuf))
	}
	s.checkAll("after-gc")
}

// C02-S2b: several hint splits per data file (split capacity 2, three distinct keys per file)
// and partial removal of hint splits: every subset pattern must rebuild the same mapping.
func VH_C02_S2_hint_splits() {
	scenSplitCap = 2
	s := newScen(768, false, "ka", "kb", "kc", "kd")
	s.setS("ka")
	s.setS("kb")
	s.setS("kc") // file0: splits {ka,kb} {kc}
	s.setS("kd")
	s.setS("ka")
	if vrt.Bool("delete") {
		s.del("kb")
	} else {
		s.setS("kb")
	} // file1: splits {kd,ka} {kb}
	s.setS("kc") // file2
	s.checkAll("before-restart")
	// 8 per-kind patterns, plus "tree dump + last split of every file"
	s.reopen([]int{0, 1, 2, 3, 7, 8}[vrt.Choice("rm", 6)])
	s.checkAll("after-restart")
	s.close()
}

// C03-S3 skeleton "resurrection onto a short earlier file": a restart leaves file 0 short, so a
// later pass over [1,..] appends its survivors - among them the tombstone of a key whose live
// record sits in file 0 - to file 0 itself (destination 0, range start > 0). The tombstone must
// survive, with the tree dump present or rebuilt, and the key must stay deleted after any
// further restart.
func VH_C03_S3_gc_resurrection_short() {
	s := newScen(768, false, "ka", "kb", "kc")
	s.distinct = true
	s.setS("ka") // file0 (short)
	if vrt.Bool("two-in-file0") {
		s.setS("kb")
	}
	s.reopen(0) // clean restart: the next write opens file 1
	s.del("ka") // file1: tombstone of a key whose record is in file 0
	s.setS("kb")
	s.setS("kc") // file1 full
	s.setS("kc") // file2 = head (supersedes kc@1)
	s.flush()
	s.checkAll("before-gc")
	if vrt.Bool("restart-without-tree") {
		s.reopen(1 | 2*vrt.Choice("also-hints", 2)) // head moves on to file 3, file 2 stays short
	}
	end := 1
	if s.bkt().datas.newHead > 2 && vrt.Bool("range-includes-file2") {
		end = 2
	}
	s.gc(1, end, vrt.Bool("merge"))
	s.checkAll("after-gc")
	s.reopen(vrt.Choice("rm", 8))
	s.checkAll("after-gc-restart")
	s.reopen(7)
	s.checkAll("after-gc-second-restart")
	s.close()
}
