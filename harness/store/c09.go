//go:build verif

package store

import (
	"bytes"
	"encoding/binary"

	"github.com/douban/gobeansdb/cmem"
	"github.com/douban/gobeansdb/config"
	vrt "github.com/douban/gobeansdb/zzvrt"
)

// C09-K1: padded record size is the least multiple of 256 >= 24+ksz+vsz, without
// 32-bit overflow, for every valid key length and every value length up to BodyMax.
func VH_C09_K1_sizes() {
	ksz, vsz := vrt.Int("ksz"), vrt.Int("vsz")
	bodyMax := vrt.Int("bodymax")
	vrt.Assume(vrt.All(ksz >= 1, ksz <= 250, bodyMax >= 0, bodyMax <= 1<<31-1, vsz >= 0, vsz <= bodyMax))
	rec := &Record{Key: vrt.BytesLen("k", ksz), Payload: &Payload{CArray: cmem.CArray{Body: vrt.BytesLen("v", vsz)}}}
	raw, padded := rec.Sizes()
	want := uint64(24 + ksz + vsz)
	vrt.Assert("raw-size", uint64(raw) == want)
	vrt.Assert("padded-multiple-of-256", padded&0xff == 0)
	vrt.Assert("padded-covers", uint64(padded) >= want)
	vrt.Assert("padded-least", uint64(padded) < want+256)
	vrt.Assert("Size-agrees", rec.Size() == padded)
}

func refHeader(crc, ts, flag uint32, ver int32, ksz, vsz uint32) []byte {
	h := make([]byte, 24)
	put := func(off int, v uint32) {
		h[off] = byte(v)
		h[off+1] = byte(v >> 8)
		h[off+2] = byte(v >> 16)
		h[off+3] = byte(v >> 24)
	}
	put(0, crc)
	put(4, ts)
	put(8, flag)
	put(12, uint32(ver))
	put(16, ksz)
	put(20, vsz)
	return h
}

// C09-K2: header layout crc|ts|flag|ver|ksz|vsz little-endian, decode(encode) identity for
// all 32-bit fields, and the CRC covers exactly header[4:] + key + value in that order.
func VH_C09_K2_header() {
	vrt.Summarize("crc32_write") // CRC as an uninterpreted fold (its definition is C16-K5)
	ts, flag := vrt.U32("ts"), vrt.U32("flag")
	ver := vrt.I32("ver")
	// key lengths: tiny ones, and the longest legal keys (20 checksummed header bytes + key
	// cross the 256-byte mark at 237): every key byte must be covered by the CRC
	nk := []int{1, 2, 235, 236, 237, 249, 250}[vrt.Choice("nk", 7)]
	nv := vrt.Choice("nv", 3)
	key, val := vrt.Bytes("key", nk), vrt.Bytes("val", nv)
	rec := &Record{Key: key, Payload: &Payload{Meta: Meta{TS: ts, Flag: flag, Ver: ver}, CArray: cmem.CArray{Body: val}}}
	w := wrapRecord(rec)
	w.encodeHeader()
	// reference CRC: the same fold over the documented byte sequence
	ref := refHeader(0, ts, flag, ver, uint32(nk), uint32(nv))
	h := newCrc32()
	h.write(append(append(append([]byte{}, ref[4:]...), key...), val...))
	crc := h.get()
	want := refHeader(crc, ts, flag, ver, uint32(nk), uint32(nv))
	vrt.Assert("header-bytes", vrt.BytesEq(w.header[:], want))
	// decode
	w2 := newWriteRecord()
	copy(w2.header[:], w.header[:])
	w2.decodeHeader()
	vrt.Assert("decode-roundtrip", vrt.All(w2.crc == crc, w2.rec.Payload.TS == ts, w2.rec.Payload.Flag == flag,
		w2.rec.Payload.Ver == ver, w2.ksz == uint32(nk), w2.vsz == uint32(nv)))
	// decodeHeader on arbitrary bytes reads the documented offsets
	hb := vrt.Bytes("hdr", 24)
	w3 := newWriteRecord()
	copy(w3.header[:], hb)
	w3.decodeHeader()
	vrt.Assert("decode-layout", vrt.All(w3.crc == binary.LittleEndian.Uint32(hb[0:]), w3.rec.Payload.TS == binary.LittleEndian.Uint32(hb[4:]),
		w3.rec.Payload.Flag == binary.LittleEndian.Uint32(hb[8:]), uint32(w3.rec.Payload.Ver) == binary.LittleEndian.Uint32(hb[12:]),
		w3.ksz == binary.LittleEndian.Uint32(hb[16:]), w3.vsz == binary.LittleEndian.Uint32(hb[20:])))
}

func c09Conf() {
	config.MCConf.BodyMax = 600
	config.MCConf.BodyInC = 0 // values live in C memory: frees are tracked
	config.MCConf.MaxKeyLen = 250
	Conf.BufIOCap = 4096
	cmem.DBRL.ResetAll()
}

type c09rec struct {
	key, val []byte
	ts, flag uint32
	ver      int32
}

func c09mkRecord(tag string, nk, nv int) c09rec {
	return c09rec{key: vrt.Bytes(tag+".key", nk), val: vrt.Bytes(tag+".val", nv), ts: vrt.U32(tag + ".ts"), flag: vrt.U32(tag + ".flag"), ver: vrt.I32(tag + ".ver")}
}

func (r c09rec) record() *Record {
	p := &Payload{Meta: Meta{TS: r.ts, Flag: r.flag, Ver: r.ver}}
	p.Body = append([]byte{}, r.val...)
	return &Record{Key: append([]byte{}, r.key...), Payload: p}
}

func c09same(rec *Record, r c09rec) bool {
	return vrt.All(len(rec.Key) == len(r.key), len(rec.Payload.Body) == len(r.val)) &&
		vrt.All(vrt.BytesEq(rec.Key, r.key), vrt.BytesEq(rec.Payload.Body, r.val),
			rec.Payload.TS == r.ts, rec.Payload.Flag == r.flag, rec.Payload.Ver == r.ver)
}

// C09-U1: records written with the real writer are read back identically both by position
// and by sequential scan; offsets advance by the padded size; the file is block aligned.
func VH_C09_U1_roundtrip() {
	vrt.Summarize("crc32_write")
	c09Conf()
	dir := vrt.TempDir()
	path := dir + "/000.data"
	// sizes: tiny symbolic ones plus bodies straddling the 256-byte block boundary
	sizes := [][2]int{{1, 0}, {2, 1}, {1, 231}, {1, 232}, {3, 2}}
	if vrt.Tier() > 0 {
		sizes = append(sizes, [2]int{250, 0}, [2]int{1, 487}, [2]int{1, 488}, [2]int{2, 3})
	}
	n := 2
	var recs []c09rec
	for i := 0; i < n; i++ {
		s := sizes[vrt.Choice("size", len(sizes))]
		recs = append(recs, c09mkRecord("r", s[0], s[1]))
	}
	w, err := GetStreamWriter(path, false)
	vrt.Assert("writer-opens", err == nil)
	var offs []uint32
	for _, r := range recs {
		off, err := w.Append(r.record())
		vrt.Assert("append-ok", err == nil)
		offs = append(offs, off)
	}
	vrt.Assert("close-ok", w.Close() == nil)
	// layout
	exp := uint32(0)
	for i, r := range recs {
		vrt.Assert("offset-is-sum-of-padded-sizes", offs[i] == exp)
		exp += ((uint32(24+len(r.key)+len(r.val)) + 255) >> 8) << 8
	}
	f, err := os_Open(path)
	vrt.Assert("file-opens", err == nil)
	st, _ := f.Stat()
	vrt.Assert("file-length-is-sum", st.Size() == int64(exp))
	// by position
	for i, r := range recs {
		wr, err := readRecordAt(path, f, offs[i])
		vrt.Assert("read-by-position-ok", err == nil)
		if err == nil {
			vrt.Assert("read-by-position-identical", c09same(wr.rec, r))
			cmem.DBRL.GetData.SubSizeAndCount(wr.rec.Payload.CArray.Cap)
			wr.rec.Payload.Free()
		}
	}
	f.Close()
	// sequential scan
	sr, err := newDataStreamReader(path, 4096)
	vrt.Assert("scanner-opens", err == nil)
	for i, r := range recs {
		rec, off, broken, err := sr.Next()
		vrt.Assert("scan-ok", vrt.All(err == nil, rec != nil))
		if rec != nil {
			vrt.Assert("scan-identical", c09same(rec, r))
			vrt.Assert("scan-offset", vrt.All(off == offs[i], broken == 0))
		}
	}
	rec, _, _, err := sr.Next()
	vrt.Assert("scan-ends", vrt.All(rec == nil, err == nil))
	sr.Close()
	vrt.Assert("ledger-zero", cmem.DBRL.GetData.Count == 0 && cmem.DBRL.GetData.Size == 0 && cmem.AllocRL.Count == 0)
}

// crcOf recomputes the CRC of a record exactly as the format defines it (same fold).
func c09crc(hdr []byte, key, val []byte) uint32 {
	h := newCrc32()
	h.write(append(append(append([]byte{}, hdr[4:24]...), key...), val...))
	return h.get()
}

// C09-U2: whatever bytes a data file holds, a record is returned only if its size fields are
// valid and its stored CRC equals the CRC of exactly the bytes returned (modulo CRC-32
// collisions: the check is that the comparison is made, over the right bytes).
func VH_C09_U2_corruption() {
	vrt.Summarize("crc32_write")
	c09Conf()
	config.MCConf.BodyMax = 6
	config.MCConf.MaxKeyLen = 3
	dir := vrt.TempDir()
	path := dir + "/000.data"
	blocks := 1 + vrt.Choice("blocks", 2)
	raw := vrt.Bytes("file", 40)
	file := make([]byte, 256*blocks)
	copy(file, raw) // first 40 bytes arbitrary, the rest zero (enough for header+3+6)
	vrt.Assert("write", writeFileBytes(path, file) == nil)
	f, _ := os_Open(path)
	wr, err := readRecordAt(path, f, 0)
	f.Close()
	if err == nil {
		ksz, vsz := binary.LittleEndian.Uint32(file[16:]), binary.LittleEndian.Uint32(file[20:])
		vrt.Assert("accepted-only-with-valid-sizes", vrt.All(ksz >= 1, ksz <= 3, vsz <= 6))
		vrt.Assert("accepted-lengths", vrt.All(uint32(len(wr.rec.Key)) == ksz, uint32(len(wr.rec.Payload.Body)) == vsz))
		k, v := file[24:24+len(wr.rec.Key)], file[24+len(wr.rec.Key):24+len(wr.rec.Key)+len(wr.rec.Payload.Body)]
		vrt.Assert("accepted-bytes-are-file-bytes", vrt.All(vrt.BytesEq(wr.rec.Key, k), vrt.BytesEq(wr.rec.Payload.Body, v)))
		vrt.Assert("accepted-only-with-matching-crc", binary.LittleEndian.Uint32(file[0:]) == c09crc(file[:24], k, v))
		cmem.DBRL.GetData.SubSizeAndCount(wr.rec.Payload.CArray.Cap)
		wr.rec.Payload.Free()
	} else {
		vrt.Assert("error-returns-nil-record", wr == nil)
	}
	vrt.Assert("ledger-zero", cmem.DBRL.GetData.Count == 0 && cmem.DBRL.GetData.Size == 0 && cmem.AllocRL.Count == 0)

	// the sequential scanner obeys the same rule
	sr, _ := newDataStreamReader(path, 4096)
	rec, off, _, err := sr.Next()
	if rec != nil {
		vrt.Assert("scan-aligned", off&0xff == 0)
		o := int(off)
		ksz, vsz := binary.LittleEndian.Uint32(file[o+16:]), binary.LittleEndian.Uint32(file[o+20:])
		vrt.Assert("scan-accepted-only-with-valid-sizes", vrt.All(ksz >= 1, ksz <= 3, vsz <= 6))
		k, v := file[o+24:o+24+len(rec.Key)], file[o+24+len(rec.Key):o+24+len(rec.Key)+len(rec.Payload.Body)]
		vrt.Assert("scan-accepted-bytes", vrt.All(uint32(len(rec.Key)) == ksz, uint32(len(rec.Payload.Body)) == vsz) &&
			vrt.All(vrt.BytesEq(rec.Key, k), vrt.BytesEq(rec.Payload.Body, v)))
		vrt.Assert("scan-accepted-only-with-matching-crc", binary.LittleEndian.Uint32(file[o:]) == c09crc(file[o:o+24], k, v))
	}
	sr.Close()
	_ = err
}

// C09-U3: a damaged first record does not hide the intact records after it.
func VH_C09_U3_resync() {
	vrt.Summarize("crc32_write")
	c09Conf()
	dir := vrt.TempDir()
	path := dir + "/000.data"
	recs := []c09rec{c09mkRecord("r0", 2, 3), c09mkRecord("r1", 1, 2), c09mkRecord("r2", 2, 1)}
	var buf bytes.Buffer
	for _, r := range recs {
		wrapRecord(r.record()).append(&buf, true)
	}
	file := buf.Bytes()
	vrt.Assert("three-blocks", len(file) == 768)
	// damage inside block 0, or inside block 1 (so that the record after the damage is the last
	// block of the file)
	db := 256 * vrt.Choice("damaged-block", 2)
	blk := file[db : db+256]
	kind := vrt.Choice("damage", 4)
	known := false
	switch kind {
	case 0: // overwrite one byte of the key/value area with a different byte
		pos := 24 + vrt.Choice("pos", 3)
		nb := vrt.U8("newbyte")
		vrt.Assume(nb != blk[pos])
		blk[pos] = nb
	case 1: // zero the whole block
		for i := 0; i < 256; i++ {
			blk[i] = 0
		}
	case 2: // arbitrary size fields (may claim a huge, zero, or past-EOF length)
		nsz := vrt.Bytes("sizes", 8)
		vrt.Assume(!vrt.BytesEq(nsz, blk[16:24]))
		copy(blk[16:24], nsz)
		ksz, vsz := binary.LittleEndian.Uint32(nsz[0:]), binary.LittleEndian.Uint32(nsz[4:])
		// bound: valid-looking sizes are drawn from {1..3, 250} x {0..6, 598..600}; invalid ones are free
		vrt.Assume(vrt.Any(ksz == 0, ksz <= 3, ksz == 250, ksz > 250))
		vrt.Assume(vrt.Any(vsz <= 6, vrt.All(vsz >= 598, vsz <= 600), vsz > 600))
		// F4: sizes that are individually valid but reach past the end of the file
		known = ksz >= 1 && ksz <= 250 && vsz <= 600 && uint64(db)+uint64(24)+uint64(ksz)+uint64(vsz) > 768
	case 3: // flipped CRC field
		nc := vrt.Bytes("crc", 4)
		vrt.Assume(!vrt.BytesEq(nc, blk[0:4]))
		copy(blk[0:4], nc)
	}
	vrt.Assert("write", writeFileBytes(path, file) == nil)
	sr, _ := newDataStreamReader(path, 4096)
	// the scan must yield every intact record (modulo CRC collisions the damaged one is not
	// returned) with its offset, and then end cleanly
	next := 0
	if db == 0 {
		next = 1
	}
	first := true
	for next < 3 {
		rec, off, broken, err := sr.Next()
		if first {
			vrt.AssertKnown("scan-continues-after-damage", "F4", known, vrt.All(err == nil, rec != nil))
		} else {
			vrt.AssertKnown("scan-yields-every-intact-record", "F4", known, vrt.All(err == nil, rec != nil))
		}
		if err != nil || rec == nil {
			sr.Close()
			return
		}
		if int(off) == db {
			// the damaged block itself came back: only possible through a CRC collision of the fold
			vrt.Reach("crc-collision-path")
			sr.Close()
			return
		}
		vrt.Assert("intact-record-at-its-offset", vrt.All(int(off) == 256*next, c09sameQuiet(rec, recs[next])))
		if first && db == 0 || !first && db == 256 && next == 2 {
			vrt.Assert("broken-size-reported", broken > 0)
		}
		first = false
		next++
		if next == 1 && db == 256 {
			next = 2
		}
	}
	rec, _, _, err := sr.Next()
	vrt.Assert("scan-ends-cleanly", vrt.All(rec == nil, err == nil))
	sr.Close()
}

func c09sameQuiet(rec *Record, r c09rec) bool {
	if len(rec.Key) != len(r.key) || len(rec.Payload.Body) != len(r.val) {
		return false
	}
	return vrt.All(vrt.BytesEq(rec.Key, r.key), vrt.BytesEq(rec.Payload.Body, r.val),
		rec.Payload.TS == r.ts, rec.Payload.Flag == r.flag, rec.Payload.Ver == r.ver)
}
