//go:build verif

package store

import (
	vrt "github.com/douban/gobeansdb/zzvrt"
)

// C16-K5a: CRC table step of the real C loop (LLVM IR of the current crc32.go) equals the
// bitwise reflected-0xEDB88320 step for every state and byte (one-step inductive lemma).
func VH_C16_K5_crc_step() {
	st := vrt.U32("state")
	b := vrt.Bytes("byte", 1)
	h := &crc32{st}
	h.write(b)
	vrt.Assert("crc-table-step", h.crc == refCrc32Step(st, b[0]))
}

// C16-K5b: wrappers: initial value, final complement, and getCRC feeding header[4:], key, value.
func VH_C16_K5_crc_whole() {
	// whole function vs. bitwise reference: lengths 0..1 (two chained table look-ups over
	// symbolic bytes already exceed the solver; longer inputs follow from the step lemma)
	n := vrt.Choice("len", 2)
	b := vrt.Bytes("b", n)
	h := newCrc32()
	if n > 0 {
		h.write(b)
	}
	vrt.Assert("crc32-whole", h.get() == refCrc32(b))
}
