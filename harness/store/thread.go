//go:build verif

package store

import (
	"runtime"

	"github.com/douban/gobeansdb/cmem"
	vrt "github.com/douban/gobeansdb/zzvrt"
)

// ---- hook-driven placement of a second operation (or a snapshot) inside a running one ----

// atPoint arranges for action to run the (occ+1)-th time control point `point` is reached.
// It returns a function reporting whether the action ran.
func atPoint(point string, occ int, action func()) func() bool {
	n, fired, busy := 0, false, false
	VerifHook = func(p string) {
		if p != point || fired || busy {
			return
		}
		if n == occ {
			busy = true
			action()
			busy = false
			fired = true
		}
		n++
	}
	return func() bool { VerifHook = nil; return fired }
}

// setRaw is scen.set without waiting for the post-rotation flush goroutine.
func (s *scen) setRaw(key string, body []byte, flag uint32) {
	ki := NewKeyInfoFromBytes([]byte(key), 0, false)
	p := &Payload{Meta: Meta{Flag: flag, TS: 1}}
	allocBody(p, body)
	cmem.DBRL.SetData.AddSizeAndCount(p.CArray.Cap)
	err := s.st.Set(ki, p)
	vrt.Assert("set-no-error", err == nil)
	m := s.model[key]
	m.ver = abs32(m.ver) + 1
	m.body, m.flag, m.written, m.vhash = append([]byte{}, body...), flag, true, Getvhash(body)
}

// C17-T5: a second GC request for a bucket issued while an accepted one is in progress (here:
// between the first request's already-running check and its registration) must be refused.
func VH_C17_T5_at_most_one_pass() {
	runtime.GOMAXPROCS(1) // native replay: the spawned pass does not run before the second request
	s := newScen(512, false, "ka", "kb")
	s.setS("ka")
	s.setS("kb")
	s.setS("ka")
	s.setS("kb")
	s.setS("ka") // file2 = head
	s.flush()
	var err2 error
	second := func() {
		_, _, err2 = s.st.GC(0, 0, vrt.Choice("end2", 2), 0, vrt.Bool("merge2"), false)
	}
	where := vrt.Choice("second-request", 2)
	var done func() bool
	if where == 0 {
		done = atPoint("gcreq:before-spawn", 0, second) // between check and registration
	}
	_, _, err1 := s.st.GC(0, 0, 1, 0, vrt.Bool("merge"), false)
	if where == 0 {
		vrt.Assume(done())
		// the two requests overlap: exactly one of them may be accepted
		vrt.AssertKnown("overlapping-requests-exactly-one-accepted", "F13", true, (err1 == nil) != (err2 == nil))
	} else {
		vrt.Assert("first-request-accepted", err1 == nil)
		second() // right after the first request returned (its pass has been spawned)
		vrt.AssertKnown("second-request-refused-while-first-in-progress", "F13", true, err2 != nil)
	}
	// pretend mode never registers or spawns anything
	b, e, err3 := s.st.GC(0, 0, 1, 0, false, true)
	_, _ = b, e
	_ = err3
	vrt.Drain()
	s.settleGC()
	s.checkAll("after-passes")
	s.close()
}

// settleGC waits until no GC pass is registered.
func (s *scen) settleGC() {
	for i := 0; i < 5000; i++ {
		if !s.st.IsGCRunning() {
			return
		}
		sleepMs(1)
	}
	vrt.Fail("gc-pass-never-finished")
}

var gcPoints = []string{"gc:start", "gc:before-newest-check", "gc:before-copy", "gc:after-copy", "gc:before-repoint", "gc:before-hint", "gc:before-clear", "gc:after-clear"}

// C05-T3: one client operation on a key whose newest record lies inside the collected range,
// placed at every per-record step of a GC pass: afterwards (and after a restart) every key
// holds its last acknowledged write; a read during GC returns the acknowledged value.
func VH_C05_T3_gc_vs_client() {
	s := newScen(512, false, "ka", "kb", "kc")
	s.setS("ka")
	s.setS("kb") // file0
	s.setS("ka")
	s.setS("kb") // file1: newest ka@0, kb@256
	// head (file2): empty or holding one record, so that the client's new record can land at the
	// same offset its old record has in the source file
	s.setS("kc")
	if vrt.Tier() > 0 && vrt.Bool("head-holds-two") {
		s.setS("kc")
		s.setS("kc") // rotates: head = file3 with one record
	}
	s.flush()
	point := gcPoints[vrt.Choice("point", len(gcPoints))]
	occ := vrt.Choice("occurrence", 3)
	op := vrt.Choice("client-op", 3)
	ckey := []string{"ka", "kb"}[vrt.Choice("client-key", 2)]
	known := (point == "gc:before-copy" || point == "gc:after-copy" || point == "gc:before-repoint") && op != 2
	client := func() {
		switch op {
		case 0:
			s.setS(ckey)
		case 1:
			s.del(ckey)
		case 2:
			s.check(ckey, "read-during-gc")
		}
	}
	done := atPoint(point, occ, client)
	s.gc(0, 1, vrt.Bool("merge"))
	vrt.Assume(done())
	s.checkAllKnown("after-gc", "F3", known)
	s.reopen(vrt.Choice("rm", 2) * 7)
	s.checkAllKnown("after-gc-restart", "F3", known)
	s.close()
}

// C02-T (schedule clause): Close racing with the asynchronous flush that follows a data-file
// rotation: every write acknowledged before Close returned must be present after reopening,
// also when the spawned flush has not run by the time the process exits.
func VH_C02_T_close_vs_rotation_flush() {
	s := newScen(512, false, "ka", "kb", "kc")
	release := make(chan struct{})
	closing := false
	VerifHook = func(p string) {
		if p == "flush:enter" && !closing {
			<-release // the post-rotation flush goroutine is parked (it never runs before exit)
		}
	}
	s.setRaw("ka", vrt.Bytes("va", 1), 0)
	s.setRaw("kb", vrt.Bytes("vb", 1), 0) // file0 is full, both records buffered
	s.setRaw("kc", vrt.Bytes("vc", 1), 0) // rotates: spawns the flush of file0
	closing = true
	s.st.Close()
	VerifHook = nil
	// the process exits here (goroutines that have not run are gone); restart
	vrt.KillOthers()
	s.open()
	s.checkAllKnown("after-restart", "F2", true)
	_ = release
}

// readEither reads key and accepts the old or the new model state (an operation in flight).
func (s *scen) readEither(key string, old, new mval, where string) {
	ki := NewKeyInfoFromBytes([]byte(key), 0, false)
	p, _, err := s.st.Get(ki, false)
	vrt.Assert(where+":get-no-error", err == nil)
	if err != nil {
		return
	}
	match := func(m mval) bool {
		if m.ver > 0 {
			return p != nil && vrt.All(p.Ver == m.ver, p.Flag == m.flag, len(p.Body) == len(m.body)) && vrt.BytesEq(p.Body, m.body)
		}
		return p == nil || p.Ver < 0
	}
	vrt.Assert(where+":read-is-old-or-new-value", vrt.Any(match(old), match(new)))
	if p != nil {
		cmem.DBRL.GetData.SubSizeAndCount(p.CArray.Cap)
		p.CArray.Free()
	}
}

// C04-T1: a second operation placed at the control points inside a write (after the append,
// after the tree update), inside a flush (written but buffer not yet detached) and around a
// hint dump: a read returns a value some write stored, never older than the last acknowledged
// one; writers are mutually excluded across read-old/append/index-update (the bucket lock is
// held at the in-write points); after everything, every key holds its highest version.
func VH_C04_T1_op_inside_op() {
	s := newScen(512, false, "ka", "kb")
	s.setS("ka")
	s.setS("kb")
	if vrt.Bool("flush-first") {
		s.flush()
	}
	kind := vrt.Choice("placement", 3)
	switch kind {
	case 0: // inside a write to ka
		point := []string{"set:after-append", "set:after-tree"}[vrt.Choice("point", 2)]
		old := *s.model["ka"]
		del := vrt.Bool("delete")
		var newv mval
		nb := vrt.Bytes("v.new", 1)
		nf := vrt.U32("f.new") &^ (FLAG_COMPRESS | FLAG_CLIENT_COMPRESS)
		if del {
			newv = mval{ver: -(old.ver + 1)}
		} else {
			newv = mval{ver: old.ver + 1, body: nb, flag: nf}
		}
		done := atPoint(point, 0, func() {
			vrt.Assert("bucket-write-lock-held-inside-a-write", !s.bkt().writeLock.TryLock())
			s.readEither("ka", old, newv, "read-inside-write")
			s.check("kb", "other-key-inside-write")
		})
		if del {
			s.del("ka")
		} else {
			s.set("ka", nb, nf, 0)
		}
		vrt.Assume(done())
	case 1: // inside a flush of buffered records
		s.setS("ka")
		done := atPoint([]string{"flush:written-not-detached", "flush:done", "flush:enter"}[vrt.Choice("point", 3)], 0, func() {
			s.check("ka", "read-inside-flush")
			s.check("kb", "read-inside-flush")
		})
		s.flush()
		vrt.Assume(done())
	case 2: // around a hint split dump
		s.setS("ka") // file1
		s.flush()
		done := atPoint([]string{"hint:before-dump", "hint:tmp-written", "hint:after-dump"}[vrt.Choice("point", 3)], 0, func() {
			s.check("ka", "read-inside-hint-dump")
			if vrt.Bool("write-inside-hint-dump") {
				s.setS("kb")
			}
		})
		s.bkt().hints.dumpAndMerge(false)
		vrt.Assume(done())
	}
	s.checkAll("after")
	s.reopen(vrt.Choice("rm", 2) * 7)
	s.checkAll("after-restart")
	s.close()
}

// C04-T1b: two writers on one key: writer B is started while writer A is inside its write
// (control point set:after-append: record appended, tree not yet updated); B must queue behind A:
// both writes get distinct, ordered versions and the key ends with the later write.
func VH_C04_T1_two_writers() {
	s := newScen(512, false, "ka", "kb")
	s.setS("ka")
	old := s.model["ka"].ver
	bBody := vrt.Bytes("v.b", 1)
	bDelete := vrt.Bool("b-deletes")
	bdone := make(chan struct{}, 1)
	started := false
	// B is started while A is inside its write: after the append, or after the tree update
	startAt := []string{"set:after-append", "set:after-tree"}[vrt.Choice("b-starts-at", 2)]
	VerifHook = func(p string) {
		if p != startAt || started {
			return
		}
		started = true
		go func() {
			ki := NewKeyInfoFromBytes([]byte("ka"), 0, false)
			if bDelete {
				s.st.Set(ki, GetPayloadForDelete())
			} else {
				p := &Payload{Meta: Meta{TS: 1}}
				allocBody(p, bBody)
				cmem.DBRL.SetData.AddSizeAndCount(p.CArray.Cap)
				s.st.Set(ki, p)
			}
			bdone <- struct{}{}
		}()
		vrt.Drain() // engine: B runs until it blocks on the bucket lock
		sleepMs(150) // native: give B time to reach the lock
	}
	aBody := vrt.Bytes("v.a", 1)
	s.setRaw("ka", aBody, 0) // writer A (acknowledged first)
	<-bdone
	VerifHook = nil
	vrt.Assert("second-writer-ran", started)
	// model: A then B
	m := s.model["ka"]
	vrt.Assert("a-got-the-next-version", m.ver == old+1)
	if bDelete {
		m.ver = -(m.ver + 1)
		m.body = nil
	} else {
		m.ver = m.ver + 1
		m.body, m.flag = bBody, 0
	}
	s.checkAll("after-both-writers")
	s.reopen(vrt.Choice("rm", 2) * 7)
	s.checkAll("after-restart")
	s.close()
}

var gcCancelPoints = []string{"gc:start", "gc:before-newest-check", "gc:dst-switch", "gc:before-copy", "gc:after-copy", "gc:before-repoint", "gc:before-hint", "gc:before-clear", "gc:after-clear", "gc:after-nextgc"}

// C05-T4: CancelGC arriving at any control point of a pass whose destination is an earlier short
// file and whose sources are mostly live, so that the destination fills up in the middle of a
// source file and the pass goes on rewriting that source in place ("gc:dst-switch"): whenever
// the cancel lands, when the pass has ended every key holds its last acknowledged write, also
// after a restart with all or no index files.
func VH_C05_T4_cancel() {
	s := newScen(768, false, "ka", "kb", "kc", "kd", "ke", "kf", "kg")
	s.setS("ka") // file0, left short (1 or 2 records) by the restart below
	if vrt.Bool("two-in-file0") {
		s.setS("kg")
	}
	s.reopen(0)
	s.setS("kb")
	s.setS("kc")
	s.setS("kd") // file1: all live
	s.setS("ke")
	s.setS("kf")
	if vrt.Bool("file2-has-garbage") {
		s.setS("ka") // supersedes ka@0
	} else {
		s.setS("kg")
	} // file2
	s.setS("kg") // file3 = head
	s.flush()
	point := gcCancelPoints[vrt.Choice("point", len(gcCancelPoints))]
	occ := vrt.Choice("occurrence", 6)
	withWrite := vrt.Tier() > 0 && vrt.Bool("client-write-with-cancel")
	done := atPoint(point, occ, func() {
		s.st.CancelGC(0)
		if withWrite {
			s.setS("kc")
		}
	})
	s.st.gcMgr.gc(s.bkt(), 1, 2, vrt.Bool("merge")) // a cancelled pass may legitimately end early
	vrt.Assume(done())
	s.checkAll("after-cancelled-gc")
	s.reopen(vrt.Choice("rm", 2) * 7)
	s.checkAll("after-cancelled-gc-restart")
	s.close()
}
