//go:build verif

package store

import (
	"os"

	vrt "github.com/douban/gobeansdb/zzvrt"
)

func fileBytes(path string) []byte {
	b, err := os.ReadFile(path)
	if err != nil {
		return nil
	}
	return b
}

// countRecords counts records and bytes of chunks [begin,end] with the independent scanner.
func (s *scen) countRecords(begin, end int) (n int, size int64) {
	for c := begin; c <= end; c++ {
		recs, _ := scanFile(genDataPath(s.dir, c))
		n += len(recs)
		size += int64(len(fileBytes(genDataPath(s.dir, c))))
	}
	return
}

// C18-S8: after a pass every surviving record of the range is current and unique; the space of
// all superseded versions is returned; the reported counters equal what an independent scan saw
// disappear; an appended-to earlier file keeps its prefix byte for byte; a second identical
// pass releases nothing.
func VH_C18_S8_reclaim() {
	s := newScen(768, false, "ka", "kb", "kc", "kd") // three one-block records per file
	// file0: ka kb kc | file1: ka(2) kd del(kb) | file2: kc(2) ka(3) kd(2) | file3 (head): kb(new)
	s.setS("ka")
	s.setS("kb")
	s.setS("kc")
	s.setS("ka")
	s.setS("kd")
	s.del("kb")
	s.setS("kc")
	s.setS("ka")
	s.setS("kd")
	s.setS("kb")
	s.flush()
	begin := vrt.Choice("begin", 3)
	end := begin + vrt.Choice("len", 3-begin)
	merge := vrt.Bool("merge")
	nBefore, szBefore := s.countRecords(begin, end)
	var prefix []byte
	if begin > 0 {
		prefix = fileBytes(genDataPath(s.dir, begin-1))
	}
	s.gc(begin, end, merge)
	g := s.bkt().GCHistory[len(s.bkt().GCHistory)-1]
	s.checkAll("after-gc")
	s.reclaimed(begin, end, "after-gc")
	nAfter, szAfter := s.countRecords(begin, end)
	// records relocated into an earlier, not-full file are counted there
	moved := 0
	if begin > 0 {
		after := fileBytes(genDataPath(s.dir, begin-1))
		vrt.Assert("earlier-file-prefix-unchanged", len(after) >= len(prefix) && string(after[:len(prefix)]) == string(prefix))
		moved = (len(after) - len(prefix)) / 256
	}
	vrt.Assert("counter-num-before", int(g.NumBefore) == nBefore)
	vrt.Assert("counter-size-before", g.SizeBefore == szBefore)
	vrt.Assert("counter-released-records", int(g.NumReleased) == nBefore-nAfter-moved)
	vrt.Assert("counter-released-bytes", g.SizeReleased == szBefore-szAfter-int64(moved)*256)
	// expected survivors, from the model: records of the range that are current
	vrt.Assert("something-was-reclaimed-or-nothing-was-superseded", nAfter+moved <= nBefore)
	// second identical pass releases nothing
	s.gc(begin, end, merge)
	g2 := s.bkt().GCHistory[len(s.bkt().GCHistory)-1]
	vrt.Assert("second-pass-releases-nothing", vrt.All(g2.NumReleased == 0, g2.SizeReleased == 0))
	s.checkAll("after-second-gc")
	s.reclaimed(begin, end, "after-second-gc")
	s.close()
}

// C18-S8b: exact survivor set for the full-range pass from file 0 (tombstones whose targets are
// all inside the range go too).
func VH_C18_S8_full_range() {
	s := newScen(768, false, "ka", "kb", "kc")
	s.setS("ka")
	s.setS("kb")
	s.setS("kc") // file0
	s.del("ka")
	s.setS("kb")
	s.setS("kc") // file1
	s.setS("kc") // file2 = head
	s.flush()
	if vrt.Bool("rebuild") {
		s.reopen(7) // tree rebuilt from data: tombstones are not in the tree any more
	}
	s.gc(0, 1, vrt.Bool("merge"))
	s.checkAll("after-gc")
	s.reclaimed(0, 1, "after-gc")
	n, _ := s.countRecords(0, 1)
	// current records inside the range: kb@1 only (kc's newest is in the head; ka is deleted).
	// ka's tombstone may stay only while the tree still holds it (no rebuild).
	vrt.Assert("only-current-records-survive", n >= 1 && n <= 2)
	s.reopen(vrt.Choice("rm", 8))
	s.checkAll("after-gc-restart")
	s.close()
}

// dirImage reads every data file of the bucket (chunks 0..n-1).
func (s *scen) dirImage(n int) [][]byte {
	img := make([][]byte, n)
	for c := 0; c < n; c++ {
		img[c] = fileBytes(genDataPath(s.dir, c))
	}
	return img
}

// C17-S7 / C03: footprint of a pass on a store that already went through one pass (an earlier,
// not-full file exists): only files of [begin,end] are rewritten/truncated/removed; at most one
// earlier file receives bytes, only by appending, and every file strictly between it and
// begin is empty; the head and every other file stay byte-identical; pretend changes nothing;
// reads are unchanged, also after all indexes are rebuilt.
func VH_C17_S7_footprint() {
	s := newScen(768, false, "ka", "kb", "kc", "kd", "ke")
	s.setS("ka")
	s.setS("kb")
	s.setS("kc") // file0
	s.setS("ka")
	s.setS("kb")
	s.setS("kd") // file1: supersedes ka,kb of file0
	s.setS("kd")
	s.setS("ke")
	if vrt.Bool("tombstone") {
		s.del("kd")
	} else {
		s.setS("kd")
	} // file2: supersedes kd of file1
	s.setS("ke") // file3 = head
	s.flush()
	s.gc(0, 0, vrt.Bool("merge0")) // file0 shrinks to one record: an earlier, not-full file
	s.checkAll("after-first-pass")
	const nChunks = 5
	before := s.dirImage(nChunks)
	head := s.bkt().datas.newHead
	nHist := len(s.bkt().GCHistory)
	// pretend mode: nothing changes, nothing is registered
	pb, pe, perr := s.st.GC(0, -1, -1, 0, false, true)
	_, _ = pb, pe
	vrt.Assert("pretend-resolves", perr == nil)
	vrt.Drain()
	after0 := s.dirImage(nChunks)
	same := true
	for c := range before {
		same = same && string(before[c]) == string(after0[c])
	}
	vrt.Assert("pretend-changes-nothing", same && len(s.bkt().GCHistory) == nHist && !s.st.IsGCRunning())
	// a real pass over a later range
	r := [][2]int{{2, 2}, {1, 2}, {1, 1}}[vrt.Choice("range", 3)]
	s.gc(r[0], r[1], vrt.Bool("merge"))
	after := s.dirImage(nChunks)
	appended := -1
	for c := 0; c < nChunks; c++ {
		switch {
		case c >= r[0] && c <= r[1]:
			// inside the range: free
		case c == head:
			vrt.Assert("head-file-untouched", string(before[c]) == string(after[c]))
		case c > r[1]:
			vrt.Assert("files-after-the-range-untouched", string(before[c]) == string(after[c]))
		default: // earlier than the range
			if string(before[c]) != string(after[c]) {
				vrt.Assert("earlier-file-only-appended-to", len(after[c]) > len(before[c]) && string(after[c][:len(before[c])]) == string(before[c]))
				vrt.Assert("at-most-one-earlier-file-written", appended < 0)
				appended = c
			}
		}
	}
	if appended >= 0 {
		for c := appended + 1; c < r[0]; c++ {
			vrt.Assert("no-non-empty-file-between-destination-and-range", len(before[c]) == 0)
		}
	}
	s.checkAll("after-pass")
	s.reopen([]int{0, 1, 7}[vrt.Choice("rm", 3)])
	s.checkAll("after-pass-restart")
	s.close()
}

// footprintOK asserts the C17/C18 footprint of one pass over [b,e] given the directory images
// before and after: head and later files byte-identical, at most one earlier file changed, and
// that one only by appending, with only empty files between it and the range.
func (s *scen) footprintOK(where string, before, after [][]byte, b, e, head int) {
	appended := -1
	for c := range before {
		switch {
		case c >= b && c <= e:
		case c == head:
			vrt.Assert(where+":head-file-untouched", string(before[c]) == string(after[c]))
		case c > e:
			vrt.Assert(where+":files-after-the-range-untouched", string(before[c]) == string(after[c]))
		default:
			if string(before[c]) != string(after[c]) {
				vrt.Assert(where+":earlier-file-only-appended-to", len(after[c]) > len(before[c]) && string(after[c][:len(before[c])]) == string(before[c]))
				vrt.Assert(where+":at-most-one-earlier-file-written", appended < 0)
				appended = c
			}
		}
	}
	if appended >= 0 {
		for c := appended + 1; c < b; c++ {
			vrt.Assert(where+":no-non-empty-file-between-destination-and-range", len(before[c]) == 0)
		}
	}
}

// C18-S8c / C03 / C17: a SEQUENCE of passes in one process (state a pass leaves in memory - write
// heads, rewrite flags, hint state, GC history - is input of the next): pass 1 over any legal
// range, pass 2 identical (must release nothing; thorough: any range), pass 3 over any legal
// range. After every pass: reads equal the model, the range holds only current records each
// once, the footprint rule holds byte for byte; finally a restart with all or no indexes.
func VH_C18_S8_pass_sequence() {
	s := newScen(768, false, "ka", "kb", "kc", "kd", "ke", "kf")
	s.distinct = true
	// every file keeps live records and holds garbage, so passes leave short non-empty files:
	// file0: ka kb kc | file1: ka(2) kd ke | file2: kd(2) kb(2)/del(kb) kf | file3 (head): kf(2)
	s.setS("ka")
	s.setS("kb")
	s.setS("kc")
	s.setS("ka")
	s.setS("kd")
	s.setS("ke")
	s.setS("kd")
	if vrt.Bool("tombstone") {
		s.del("kb")
	} else {
		s.setS("kb")
	}
	s.setS("kf")
	s.setS("kf")
	s.flush()
	ranges := [][2]int{{0, 0}, {1, 1}, {2, 2}, {0, 1}, {1, 2}, {0, 2}}
	const nChunks = 5
	head := s.bkt().datas.newHead
	merge := vrt.Bool("merge")
	var r1 [2]int
	for pass := 1; pass <= 3; pass++ {
		var r [2]int
		switch {
		case pass == 1:
			r = ranges[vrt.Choice("range1", len(ranges))]
			r1 = r
		case pass == 2 && vrt.Tier() == 0:
			r = r1
		default:
			r = ranges[vrt.Choice("range", len(ranges))]
		}
		where := "pass" + string(rune('0'+pass))
		before := s.dirImage(nChunks)
		s.gc(r[0], r[1], merge)
		after := s.dirImage(nChunks)
		s.footprintOK(where, before, after, r[0], r[1], head)
		s.checkAll(where)
		s.reclaimed(r[0], r[1], where)
		if pass == 2 && r == r1 {
			g := s.bkt().GCHistory[len(s.bkt().GCHistory)-1]
			vrt.Assert("identical-second-pass-releases-nothing", vrt.All(g.NumReleased == 0, g.SizeReleased == 0))
		}
	}
	s.reopen([]int{0, 7}[vrt.Choice("rm", 2)])
	s.checkAll("after-restart")
	s.close()
}

// C18-S8d: a key deleted TWICE (set, delete, set, delete) so that two tombstones are on disk, the
// older one inside the collected range of a pass that does not start at file 0 (tombstones
// are retained there): only the current tombstone may survive, counters account for the
// superseded one, reads are unchanged, also after a restart with any index subset removed.
func VH_C18_S8_superseded_tombstone() {
	s := newScen(768, false, "ka", "kb", "kc")
	s.distinct = true
	s.setS("kb")
	s.setS("kc")
	s.setS("kb") // file0
	s.setS("ka")
	s.del("ka")
	s.setS("kc") // file1: ka set + first tombstone
	s.setS("ka")
	s.del("ka")
	s.setS("kb") // file2: ka set + second (current) tombstone
	s.setS("kc") // head
	s.flush()
	rebuilt := vrt.Bool("rebuilt-tree")
	if rebuilt {
		s.reopen(1 | 2*vrt.Choice("also-hints", 2)) // the rebuilt tree holds no entry for the deleted key
	}
	r := [][2]int{{1, 1}, {1, 2}, {2, 2}, {0, 1}, {0, 2}}[vrt.Choice("range", 5)]
	nBefore, _ := s.countRecords(r[0], r[1])
	s.gc(r[0], r[1], vrt.Bool("merge"))
	g := s.bkt().GCHistory[len(s.bkt().GCHistory)-1]
	s.checkAll("after-gc")
	// F23: with a rebuilt tree (no entry for deleted keys) a pass that does not start at file 0
	// keeps every tombstone of its range, superseded ones included
	s.reclaimedKnown(r[0], r[1], "after-gc", "F23", rebuilt && r[0] > 0)
	nAfter, _ := s.countRecords(r[0], r[1])
	moved := 0
	if r[0] > 0 {
		// records appended to the earlier file are still stored
		recs, _ := scanFile(genDataPath(s.dir, r[0]-1))
		moved = len(recs) - 3
	}
	vrt.Assert("released-counter-equals-records-gone", int(g.NumReleased) == nBefore-nAfter-moved)
	s.reopen(vrt.Choice("rm", 8))
	s.checkAll("after-gc-restart")
	s.close()
}
