//go:build verif

package store

import (
	"os"

	vrt "github.com/douban/gobeansdb/zzvrt"
)

func fileBytes(path string) []byte {
	b, err := os.ReadFile(path)
	if err != nil {
		return nil
	}
	return b
}

// countRecords counts records and bytes of chunks [begin,end] with the independent scanner.
func (s *scen) countRecords(begin, end int) (n int, size int64) {
	for c := begin; c <= end; c++ {
		recs, _ := scanFile(genDataPath(s.dir, c))
		n += len(recs)
		size += int64(len(fileBytes(genDataPath(s.dir, c))))
	}
	return
}

// C18-S8: after a pass every surviving record of the range is current and unique; the space of
// all superseded versions is returned; the reported counters equal what an independent scan saw
// disappear; an appended-to earlier file keeps its prefix byte for byte; a second identical
// pass releases nothing.
func VH_C18_S8_reclaim() {
	s := newScen(768, false, "ka", "kb", "kc", "kd") // three one-block records per file
	// file0: ka kb kc | file1: ka(2) kd del(kb) | file2: kc(2) ka(3) kd(2) | file3 (head): kb(new)
	s.setS("ka")
	s.setS("kb")
	s.setS("kc")
	s.setS("ka")
	s.setS("kd")
	s.del("kb")
	s.setS("kc")
	s.setS("ka")
	s.setS("kd")
	s.setS("kb")
	s.flush()
	begin := vrt.Choice("begin", 3)
	end := begin + vrt.Choice("len", 3-begin)
	merge := vrt.Bool("merge")
	nBefore, szBefore := s.countRecords(begin, end)
	var prefix []byte
	if begin > 0 {
		prefix = fileBytes(genDataPath(s.dir, begin-1))
	}
	s.gc(begin, end, merge)
	g := s.bkt().GCHistory[len(s.bkt().GCHistory)-1]
	s.checkAll("after-gc")
	s.reclaimed(begin, end, "after-gc")
	nAfter, szAfter := s.countRecords(begin, end)
	// records relocated into an earlier, not-full file are counted there
	moved := 0
	if begin > 0 {
		after := fileBytes(genDataPath(s.dir, begin-1))
		vrt.Assert("earlier-file-prefix-unchanged", len(after) >= len(prefix) && string(after[:len(prefix)]) == string(prefix))
		moved = (len(after) - len(prefix)) / 256
	}
	vrt.Assert("counter-num-before", int(g.NumBefore) == nBefore)
	vrt.Assert("counter-size-before", g.SizeBefore == szBefore)
	vrt.Assert("counter-released-records", int(g.NumReleased) == nBefore-nAfter-moved)
	vrt.Assert("counter-released-bytes", g.SizeReleased == szBefore-szAfter-int64(moved)*256)
	// expected survivors, from the model: records of the range that are current
	vrt.Assert("something-was-reclaimed-or-nothing-was-superseded", nAfter+moved <= nBefore)
	// second identical pass releases nothing
	s.gc(begin, end, merge)
	g2 := s.bkt().GCHistory[len(s.bkt().GCHistory)-1]
	vrt.Assert("second-pass-releases-nothing", vrt.All(g2.NumReleased == 0, g2.SizeReleased == 0))
	s.checkAll("after-second-gc")
	s.reclaimed(begin, end, "after-second-gc")
	s.close()
}

// C18-S8b: exact survivor set for the full-range pass from file 0 (tombstones whose targets are
// all inside the range go too).
func VH_C18_S8_full_range() {
	s := newScen(768, false, "ka", "kb", "kc")
	s.setS("ka")
	s.setS("kb")
	s.setS("kc") // file0
	s.del("ka")
	s.setS("kb")
	s.setS("kc") // file1
	s.setS("kc") // file2 = head
	s.flush()
	if vrt.Bool("rebuild") {
		s.reopen(7) // tree rebuilt from data: tombstones are not in the tree any more
	}
	s.gc(0, 1, vrt.Bool("merge"))
	s.checkAll("after-gc")
	s.reclaimed(0, 1, "after-gc")
	n, _ := s.countRecords(0, 1)
	// current records inside the range: kb@1 only (kc's newest is in the head; ka is deleted).
	// ka's tombstone may stay only while the tree still holds it (no rebuild).
	vrt.Assert("only-current-records-survive", n >= 1 && n <= 2)
	s.reopen(vrt.Choice("rm", 8))
	s.checkAll("after-gc-restart")
	s.close()
}
