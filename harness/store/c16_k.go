//go:build verif

package store

import (
	"github.com/douban/gobeansdb/utils"
	vrt "github.com/douban/gobeansdb/zzvrt"
)

// C16-K1: both FNV copies equal the signed-byte reference for every input of length 0..2
// (whole function; longer whole-stream equalities come back unknown from the solver and
// are covered by the step lemma below).
func VH_C16_K1_fnv() {
	n := vrt.Choice("len", 3)
	b := vrt.Bytes("b", n)
	want := refFnv1aSigned(b)
	vrt.Assert("store.fnv1a", fnv1a(b) == want)
	vrt.Assert("utils.Fnv1a", utils.Fnv1a(b) == want)
}

// C16-K1b: extension lemma F(x||c) = (F(x) xor sext(c)) * prime for |x| <= hi (inductive step
// for longer inputs; the induction itself is a paper argument, DESIGN.md C16).
func VH_C16_K1_fnv_step() {
	_, hi := hashLens()
	n := vrt.Choice("len", hi+1)
	b := vrt.Bytes("b", n+1)
	c := b[n]
	x := uint32(c)
	x |= (0 - (x >> 7)) << 8
	vrt.Assert("store.fnv1a-step", fnv1a(b) == (fnv1a(b[:n])^x)*16777619)
	vrt.Assert("utils.Fnv1a-step", utils.Fnv1a(b) == (utils.Fnv1a(b[:n])^x)*16777619)
}

// C16-K2: the murmur3 dependency as called by the store equals the specification.
func VH_C16_K2_murmur() {
	hi := 16
	if vrt.Tier() > 0 {
		hi = 32
	}
	n := vrt.Choice("len", hi+1)
	b := vrt.Bytes("b", n)
	vrt.Assert("murmur3-32", murmur(b) == refMurmur3_32(b))
}

// C16-K3: 64-bit key hash = signed FNV in the high half, murmur3-32 in the low half.
func VH_C16_K3_keyhash() {
	hi := 8
	if vrt.Tier() > 0 {
		hi = 16
	}
	n := vrt.Choice("len", hi+1)
	b := vrt.Bytes("b", n)
	// composition over the two halves (each half is K1/K2's subject)
	comp := uint64(fnv1a(b))<<32 | uint64(murmur(b))
	vrt.Assert("keyhash-composition", getKeyHashDefalut(b) == comp)
	vrt.Assert("keyhash-via-var", getKeyHash(b) == comp)
	if n <= 2 {
		want := uint64(refFnv1aSigned(b))<<32 | uint64(refMurmur3_32(b))
		vrt.Assert("keyhash-vs-reference", getKeyHashDefalut(b) == want)
	}
}
