//go:build verif

package store

import (
	"github.com/douban/gobeansdb/cmem"
	vrt "github.com/douban/gobeansdb/zzvrt"
)

// C01-K2: position assignment of one append: from any aligned write head and any record size,
// the returned position names the head after the call, is the old write head of that chunk
// (so records never overlap), and the record is buffered there with that position.
func VH_C01_K2_append_position() {
	c08Conf(1, 3)
	c09Conf()
	fileMax := vrt.U32("filemax") &^ 0xff
	vrt.Assume(vrt.All(fileMax >= 256, fileMax <= 1<<30))
	Conf.DataFileMax = int64(fileMax)
	Conf.FlushWake = 1 << 40
	ds := NewdataStore(0, vrt.TempDir())
	head := vrt.Choice("head", 2)
	ds.newHead = head
	wh := vrt.U32("writingHead") &^ 0xff
	vrt.Assume(wh <= fileMax)
	ds.chunks[head].writingHead = wh
	ds.chunks[head].size = wh
	ksz, vsz := vrt.Int("ksz"), vrt.Int("vsz")
	vrt.Assume(vrt.All(ksz >= 1, ksz <= 250, vsz >= 0, vsz <= 1<<20))
	p := &Payload{Meta: Meta{Ver: vrt.I32("ver"), Flag: FLAG_CLIENT_COMPRESS}} // compression is C10's subject
	p.Body = vrt.BytesLen("v", vsz)
	p.Cap = vsz
	rec := &Record{Key: vrt.BytesLen("k", ksz), Payload: p}
	padded := ((uint32(24+ksz+vsz) + 255) >> 8) << 8
	vrt.Assume(padded <= fileMax) // a record larger than a whole file is outside the quantifier
	ds.flushLock.Lock() // keep the post-rotation flush goroutine parked: K2 is about positions only
	pos, err := ds.AppendRecord(rec)
	vrt.Assert("append-ok", err == nil)
	vrt.Assert("names-current-head", pos.ChunkID == ds.newHead)
	vrt.Assert("head-advances-by-at-most-one", vrt.Any(ds.newHead == head, ds.newHead == head+1))
	vrt.Assert("aligned", pos.Offset&0xff == 0)
	c := &ds.chunks[pos.ChunkID]
	if ds.newHead == head {
		vrt.Assert("offset-is-old-write-head", pos.Offset == wh)
	} else {
		vrt.Assert("fresh-file-starts-at-zero", pos.Offset == 0)
		vrt.Assert("rotation-only-when-it-did-not-fit", uint64(wh)+uint64(padded) > uint64(fileMax))
		vrt.Assert("old-head-untouched", vrt.All(ds.chunks[head].writingHead == wh, len(ds.chunks[head].wbuf) == 0))
	}
	vrt.Assert("fits-in-file", uint64(pos.Offset)+uint64(padded) <= uint64(fileMax))
	vrt.Assert("write-head-after", c.writingHead == pos.Offset+padded)
	vrt.Assert("buffered-last-with-position", vrt.All(len(c.wbuf) == 1, c.wbuf[0].pos.ChunkID == pos.ChunkID, c.wbuf[0].pos.Offset == pos.Offset, c.wbuf[0].rec == rec))
	vrt.Assert("recsize-recorded", rec.Payload.RecSize == padded)
}

// C01-K3: read-by-position in the write buffer: an offset that starts a buffered record
// returns a copy of exactly that record; any other offset never returns a record; offsets
// below the buffered window fall through (nil, no error) so the caller reads the file.
func VH_C01_K3_buffer_lookup() {
	c08Conf(1, 3)
	c09Conf()
	dc := &dataChunk{chunkid: 3}
	n := 1 + vrt.Choice("n", 3)
	type br struct {
		off  uint32
		key  []byte
		body []byte
		ver  int32
		flag uint32
	}
	var recs []br
	next := vrt.U32("first") &^ 0xff
	vrt.Assume(next <= 1<<20)
	for i := 0; i < n; i++ {
		r := br{off: next, key: vrt.Bytes("key", 1), body: vrt.Bytes("body", 1+vrt.Choice("blen", 2)), ver: vrt.I32("ver"), flag: vrt.U32("flag") &^ FLAG_COMPRESS}
		blocks := 1 + uint32(vrt.Choice("blocks", 2))
		p := &Payload{Meta: Meta{Ver: r.ver, Flag: r.flag, RecSize: blocks * 256}}
		p.Body = append([]byte{}, r.body...)
		w := &WriteRecord{rec: &Record{Key: append([]byte{}, r.key...), Payload: p}, pos: Position{3, r.off}}
		dc.wbuf = append(dc.wbuf, w)
		recs = append(recs, r)
		next += blocks * 256
	}
	dc.writingHead = next
	dc.size = next
	q := vrt.U32("query")
	res, err := dc.GetRecordByOffsetInBuffer(q)
	hit := -1
	for i, r := range recs {
		if q == r.off {
			hit = i
		}
	}
	if hit >= 0 {
		vrt.Assert("buffered-record-found", vrt.All(err == nil, res != nil))
		if res != nil {
			r := recs[hit]
			vrt.Assert("copy-equals-record", vrt.All(vrt.BytesEq(res.Key, r.key), len(res.Payload.Body) == len(r.body), res.Payload.Ver == r.ver, res.Payload.Flag == r.flag) &&
				vrt.BytesEq(res.Payload.Body, r.body))
			vrt.Assert("copy-is-not-an-alias", &res.Payload.Body[0] != &dc.wbuf[hit].rec.Payload.Body[0])
			cmem.DBRL.GetData.SubSizeAndCount(res.Payload.CArray.Cap)
			res.Payload.Free()
		}
	} else {
		vrt.Assert("no-record-for-other-offsets", res == nil)
		if q < recs[0].off {
			vrt.Assert("below-window-falls-through", err == nil)
		}
	}
	vrt.Assert("get-ledger-balanced", cmem.DBRL.GetData.Count == 0 && cmem.DBRL.GetData.Size == 0)
}

// C16-K4: the 16-bit value hash = uint16(len*97 + F(v)) up to 1024 bytes, else
// uint16((len*97 + F(v[:512]))*97 + F(v[len-512:])), with F summarised as an uninterpreted
// byte fold (F itself is C16-K1): all contents, lengths around every boundary.
func VH_C16_K4_vhash() {
	vrt.Summarize("github.com/douban/gobeansdb/utils.Fnv1a")
	lens := []int{0, 1, 2, 511, 512, 513, 1023, 1024, 1025, 1026, 1535, 1536, 2048}
	if vrt.Tier() > 0 {
		lens = append(lens, 3, 7, 255, 256, 1027, 1537, 4096, 10240)
	}
	l := lens[vrt.Choice("len", len(lens))]
	v := vrt.Bytes("v", l)
	got := Getvhash(v)
	var want uint32
	if l <= 1024 {
		want = uint32(l)*97 + utils_Fnv1a(v)
	} else {
		want = (uint32(l)*97+utils_Fnv1a(v[:512]))*97 + utils_Fnv1a(v[l-512:])
	}
	vrt.Assert("vhash-definition", got == uint16(want))
	p := &Payload{Meta: Meta{Ver: 1}}
	p.Body = v
	vrt.Assert("payload-vhash-uncompressed", p.Getvhash() == uint16(want))
	p.Ver = -1
	vrt.Assert("tombstone-vhash-zero", p.Getvhash() == 0)
}
