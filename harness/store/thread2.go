//go:build verif

package store

import (
	"github.com/douban/gobeansdb/cmem"
	vrt "github.com/douban/gobeansdb/zzvrt"
)

// readDuring reads key while `inside` runs at control point `point` of that very read (between
// the tree lookup and the record fetch, or between the write-buffer miss and the file read).
// The read began before the nested operation was issued, so it may observe the state before or
// after it (old / new); it must never yield anything else: no other value, no miss for a key
// that is live in both states. An error reply is not a value and is accepted only when
// errorOK (reads racing with GC: the statement of C05 rules out wrong values, not errors).
func (s *scen) readDuring(key, point string, inside func(), old mval, errorOK bool, where string) {
	done := atPoint(point, 0, inside)
	ki := NewKeyInfoFromBytes([]byte(key), 0, false)
	p, _, err := s.st.Get(ki, false)
	fired := done()
	vrt.Assume(fired)
	new := *s.model[key]
	if err != nil {
		vrt.Log("%s: read error %v", where, err)
		vrt.Assert(where+":read-answers", errorOK)
		return
	}
	match := func(m mval) bool {
		if m.ver > 0 {
			return p != nil && vrt.All(p.Ver == m.ver, p.Flag == m.flag, len(p.Body) == len(m.body)) && vrt.BytesEq(p.Body, m.body)
		}
		return p == nil || p.Ver < 0
	}
	vrt.Assert(where+":read-is-old-or-new-value", vrt.Any(match(old), match(new)))
	if p != nil {
		cmem.DBRL.GetData.SubSizeAndCount(p.CArray.Cap)
		p.CArray.Free()
	}
}

var readPoints = []string{"get:after-tree", "get:after-buffer-miss"}

// C04-T2: an operation of another client or of the background flusher / hint dumper placed
// INSIDE a read (after the read looked the key up in the tree, or after it missed the write
// buffer): overwrite or delete of the same key, write to another key that rotates the data
// file, flush, hint dump. The read returns the old or the new value; afterwards every key holds
// its highest version, also after a restart.
func VH_C04_T2_op_inside_read() {
	s := newScen(512, false, "ka", "kb")
	s.distinct = true
	s.setS("ka")
	if vrt.Bool("flushed") {
		s.flush()
	}
	if vrt.Bool("second-record") {
		s.setS("kb") // file0 full: the next write rotates
	}
	point := readPoints[vrt.Choice("point", len(readPoints))]
	old := *s.model["ka"]
	op := vrt.Choice("nested-op", 5)
	s.readDuring("ka", point, func() {
		switch op {
		case 0:
			s.setS("ka")
		case 1:
			s.del("ka")
		case 2:
			s.setS("kb")
		case 3:
			s.flush()
		case 4:
			s.flush()
			s.bkt().hints.dumpAndMerge(false)
		}
	}, old, false, "read")
	s.checkAll("after")
	s.reopen(vrt.Choice("rm", 2) * 7)
	s.checkAll("after-restart")
	s.close()
}

// C05-T3b: a GC pass (whole, or up to one of its control points where the read resumes) placed
// inside a read of a key whose record the pass relocates or compacts: the read must not return
// another key's value, an older value, or a miss for the live key.
func VH_C05_T3b_gc_inside_read() {
	s := newScen(768, false, "ka", "kb", "kc", "kd")
	s.distinct = true
	// file0: ka(dead) kb kc | file1: ka kd kd(2) | head: kd(3)
	s.setS("ka")
	s.setS("kb")
	s.setS("kc")
	s.setS("ka")
	s.setS("kd")
	s.setS("kd")
	s.setS("kd")
	s.flush()
	if vrt.Bool("reopen-first") {
		s.reopen(0)
	}
	key := []string{"ka", "kb", "kc"}[vrt.Choice("read-key", 3)]
	point := readPoints[vrt.Choice("point", len(readPoints))]
	r := [][2]int{{0, 0}, {0, 1}, {1, 1}}[vrt.Choice("range", 3)]
	merge := vrt.Bool("merge")
	old := *s.model[key]
	s.readDuring(key, point, func() {
		VerifHook = nil // the pass itself runs without nested placements
		s.gc(r[0], r[1], merge)
	}, old, true, "read-during-gc")
	s.checkAll("after-gc")
	s.close()
}

// C05-T3c: a read that SPANS GC steps. The reader looks its key up in the tree, is parked at
// get:after-tree, the pass runs on to one of its control points (chosen point x occurrence),
// there the reader is resumed and fetches the record with the position it looked up earlier
// (the pass goes on only after the read returned). The key is not written during the pass, so the
// read must return exactly its value (an error reply is accepted: not a value), never another
// key's value, an older one, or a miss.
func VH_C05_T3c_read_spanning_gc_steps() {
	s := newScen(768, false, "ka", "kb", "kc", "kd")
	s.distinct = true
	// file0: ka(dead) kb kc | file1: ka kd kd(2) | head: kd(3)
	s.setS("ka")
	s.setS("kb")
	s.setS("kc")
	s.setS("ka")
	s.setS("kd")
	s.setS("kd")
	s.setS("kd")
	s.flush()
	key := []string{"ka", "kb", "kc"}[vrt.Choice("read-key", 3)]
	point := gcCancelPoints[1+vrt.Choice("resume-point", len(gcCancelPoints)-1)]
	occ := vrt.Choice("occurrence", 4)
	r := [][2]int{{0, 0}, {0, 1}, {1, 1}}[vrt.Choice("range", 3)]
	merge := vrt.Bool("merge")
	parked := make(chan struct{}, 1)
	resume := make(chan struct{}, 1)
	readDone := make(chan struct{}, 1)
	var p *Payload
	var rerr error
	readerParked, resumed := false, false
	n := 0
	VerifHook = func(pt string) {
		if pt == "get:after-tree" && !readerParked {
			readerParked = true
			parked <- struct{}{}
			<-resume
			return
		}
		if pt == point && readerParked && !resumed {
			if n == occ {
				resumed = true
				resume <- struct{}{}
				<-readDone
			}
			n++
		}
	}
	go func() {
		ki := NewKeyInfoFromBytes([]byte(key), 0, false)
		p, _, rerr = s.st.Get(ki, false)
		readDone <- struct{}{}
	}()
	<-parked
	s.gc(r[0], r[1], merge)
	if !resumed {
		// the pass never reached the chosen point: let the reader finish, nothing to decide
		resumed = true
		resume <- struct{}{}
		<-readDone
		VerifHook = nil
		vrt.Assume(false)
	}
	VerifHook = nil
	m := s.model[key]
	if rerr != nil {
		vrt.Reach("read-spanning-gc:error-reply")
	} else {
		vrt.Assert("read-spanning-gc:live-key-not-missed", p != nil)
		if p != nil {
			vrt.Assert("read-spanning-gc:exact-value", vrt.All(p.Ver == m.ver, p.Flag == m.flag, len(p.Body) == len(m.body)) && vrt.BytesEq(p.Body, m.body))
			cmem.DBRL.GetData.SubSizeAndCount(p.CArray.Cap)
			p.CArray.Free()
		}
	}
	s.checkAll("after-gc")
	s.close()
}
