//go:build verif

package store

import (
	"os"
	"time"

	"github.com/douban/gobeansdb/utils"
)

var utilsFnv = utils.Fnv1a

func os_Open(p string) (*os.File, error) { return os.Open(p) }
func os_Stat(p string) (os.FileInfo, error) { return os.Stat(p) }

func writeFileBytes(path string, b []byte) error {
	f, err := os.Create(path)
	if err != nil {
		return err
	}
	if _, err := f.Write(b); err != nil {
		return err
	}
	return f.Close()
}

func utils_Fnv1a(b []byte) uint32 { return utilsFnv(b) }

func sleepMs(n int) { time.Sleep(time.Duration(n) * time.Millisecond) }
