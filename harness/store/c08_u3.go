//go:build verif

package store

import (
	"strings"

	vrt "github.com/douban/gobeansdb/zzvrt"
)

// C08-U3: item-level listing of ANY prefix, in particular prefixes longer than the path of the
// leaf: the listing contains exactly the items stored under the prefix, each with its full
// 64-bit key hash, version and value hash, and nothing else. Two items share one leaf (their
// hashes are symbolic below the leaf path), the prefix is the first L hex digits of the first
// item's hash for L from the leaf depth up to all 16 digits; 1 and 16 buckets.
func VH_C08_U3_listing_prefix() {
	depth := vrt.Choice("depth", 2)
	nb := []int{1, 16}[depth]
	c08Conf(nb, 3)
	bucket := 0
	if depth == 1 {
		bucket = 0xb
	}
	tree := newHTree(depth, bucket, 3)
	leafDigits := depth + 2
	fix := []int{0xb, 3, 9}[1-depth:] // path of the one leaf used (bucket digit first when depth 1)
	var khs [2]uint64
	var its [2]HTreeItem
	for i := 0; i < 2; i++ {
		kh := vrt.U64("khash")
		ki := NewKeyInfoFromBytes([]byte("k"), kh, false)
		ok := true
		for d := 0; d < leafDigits; d++ {
			ok = vrt.All(ok, ki.KeyPath[d] == fix[d])
		}
		vrt.Assume(ok)
		if i == 1 {
			vrt.Assume(kh != khs[0])
		}
		ver := vrt.I32("ver")
		vrt.Assume(ver > 0)
		meta := &Meta{Ver: ver, ValueHash: vrt.U16("vh")}
		pos := Position{0, vrt.U32("off") &^ 0xff}
		tree.set(ki, meta, pos)
		khs[i], its[i] = kh, HTreeItem{kh, pos, ver, meta.ValueHash}
	}
	L := []int{leafDigits, leafDigits + 1, leafDigits + 2, 7, 8, 9, 16}[vrt.Choice("prefix-digits", 7)]
	mask := ^uint64(0) << uint(64-4*L)
	if L == 16 {
		mask = ^uint64(0)
	}
	// the KeyInfo a directory path of L digits resolves to (C15-K1b decides that resolution)
	full := NewKeyInfoFromBytes([]byte("k"), khs[0], false)
	pki := &KeyInfo{KeyIsPath: true, StringKey: strings.Repeat("0", L), KeyHash: khs[0] & mask}
	pki.BucketID = bucket
	pki.Key = []byte(pki.StringKey)
	pki.KeyPath = append([]int{}, full.KeyPath[:L]...)
	items, nodes := tree.listDir(pki)
	vrt.Assert("few-keys-are-listed-as-items", nodes == nil)
	want := 0
	for i := 0; i < 2; i++ {
		under := khs[i]&mask == khs[0]&mask
		if under {
			want++
		}
		found := false
		for _, it := range items {
			found = vrt.Any(found, vrt.All(it.Keyhash == khs[i], it.Ver == its[i].Ver, it.Vhash == its[i].Vhash))
		}
		vrt.Assert("item-listed-iff-under-the-prefix-with-its-full-hash", found == under)
	}
	vrt.Assert("nothing-else-is-listed", len(items) == want)
	tree.release()
}
