//go:build verif

package store

import (
	"fmt"

	vrt "github.com/douban/gobeansdb/zzvrt"
)

// C15-K1: the bucket of a key is named by the leading hex digits of its key hash, for every
// 64-bit hash and 1/16/256 buckets; path digits are the hash's nibbles.
func VH_C15_K1_routing() {
	nb := []int{1, 16, 256}
	depth := vrt.Choice("depth", 3)
	c08Conf(nb[depth], 3)
	kh := vrt.U64("khash")
	ki := NewKeyInfoFromBytes([]byte("k"), kh, false)
	want := 0
	if depth > 0 {
		want = int(kh >> uint(64-4*depth))
	}
	vrt.Assert("bucket-is-top-digits", ki.BucketID == want)
	ok := true
	for i := 0; i < 16; i++ {
		ok = vrt.All(ok, ki.KeyPath[i] == int((kh>>uint(60-4*i))&0xf))
	}
	vrt.Assert("path-is-nibbles", ok)
	vrt.Assert("bucket-in-range", vrt.All(ki.BucketID >= 0, ki.BucketID < nb[depth]))
}

// C15-K1b: a directory path "@<hex digits>" resolves to the bucket named by its first digits,
// and its key hash is the digits left-aligned (shorter than the bucket depth: no bucket).
func VH_C15_K1_path_keys() {
	nb := []int{1, 16, 256}
	depth := vrt.Choice("depth", 3)
	c08Conf(nb[depth], 3)
	n := vrt.Choice("len", 4) // 0..3 symbolic hex digits
	digs := make([]byte, n)
	vals := make([]int, n)
	for i := range digs {
		d := vrt.Choice("digit", 16) // concrete digit value, both letter cases explored
		vals[i] = d
		if d < 10 {
			digs[i] = byte('0' + d)
		} else if vrt.Choice("upper", 2) == 1 {
			digs[i] = byte('A' + d - 10)
		} else {
			digs[i] = byte('a' + d - 10)
		}
	}
	ki := &KeyInfo{KeyIsPath: true, Key: digs, StringKey: string(digs)}
	err := ki.Prepare()
	vrt.Assert("hex-path-parses", err == nil)
	var wantHash uint64
	for i, v := range vals {
		wantHash |= uint64(v) << uint(60-4*i)
	}
	vrt.Assert("path-hash-left-aligned", ki.KeyHash == wantHash)
	if n < depth {
		vrt.Assert("short-path-has-no-bucket", ki.BucketID == -1)
	} else {
		want := 0
		for i := 0; i < depth; i++ {
			want = want*16 + vals[i]
		}
		vrt.Assert("path-bucket", ki.BucketID == want)
	}
}

// C15-K1c: bucket directories are pairwise distinct and as documented (no symbolic input:
// a closed enumeration of the 273 (count, id) pairs, kept here because routing depends on it).
func VH_C15_K1_dirs() {
	for _, nb := range []int{1, 16, 256} {
		seen := map[string]bool{}
		for id := 0; id < nb; id++ {
			d := GetBucketDir(nb, id)
			vrt.Assert("dirs-distinct", !seen[d])
			seen[d] = true
			switch nb {
			case 1:
				vrt.Assert("dir-1", d == "")
			case 16:
				vrt.Assert("dir-16", d == fmt.Sprintf("%x", id))
			case 256:
				vrt.Assert("dir-256", d == fmt.Sprintf("%x/%x", id/16, id%16))
			}
		}
	}
}

// C17-K1: GC range resolution. 6 chunk slots with arbitrary sizes (0 = emptied gap), any head
// position, any unflushed head buffer, arbitrary first-record timestamps, any arguments.
func VH_C17_K1_range() {
	c08Conf(1, 3)
	dir := vrt.TempDir()
	bkt := &Bucket{}
	bkt.Home = dir
	bkt.datas = NewdataStore(0, dir)
	const maxN = 6
	N := 4 // quick: 5 slots; thorough: 7 slots (1..6 data files plus the head)
	if vrt.Tier() > 0 {
		N = maxN
	}
	newHead := vrt.Choice("newHead", N+1) // one path family per head position
	bkt.datas.newHead = newHead
	var ts [maxN + 1]uint32
	var size [maxN + 1]uint32
	var disk [maxN + 1]uint32
	for i := 0; i <= N; i++ {
		ts[i] = vrt.U32("ts")
		sz := vrt.U32("size") &^ 0xff
		vrt.Assume(sz <= 4096)
		// slots above the head hold nothing
		if i > newHead {
			sz = 0
		}
		size[i] = sz
		bkt.datas.chunks[i].size = sz
		bkt.datas.chunks[i].writingHead = sz
		disk[i] = sz
		// a file with this first-record timestamp (only consulted when the chunk has bytes on disk)
		hdr := refHeader(0, ts[i], 0, 1, 1, 0)
		writeFileBytes(genDataPath(dir, i), append(hdr, make([]byte, 232)...))
	}
	// the head may hold unflushed records: its on-disk size is then the first buffered offset
	if vrt.Bool("head-buffered") {
		off := vrt.U32("head-disk") &^ 0xff
		vrt.Assume(off <= size[newHead])
		w := newWriteRecord()
		w.pos = Position{newHead, off}
		bkt.datas.chunks[newHead].wbuf = []*WriteRecord{w}
		disk[newHead] = off
	}
	bkt.NextGCChunk = vrt.Int("nextgc")
	vrt.Assume(vrt.All(bkt.NextGCChunk >= 0, bkt.NextGCChunk <= newHead))
	Conf.NoGCDays = vrt.Int("conf.nogcdays")
	vrt.Assume(vrt.All(Conf.NoGCDays >= 0, Conf.NoGCDays <= 36500))
	start, end, days := vrt.Int("start"), vrt.Int("end"), vrt.Int("days")
	vrt.Assume(vrt.All(days >= -36500, days <= 36500))
	now := int64(1600000000) // the model clock's epoch second

	b, e, err := bkt.gcCheckRange(start, end, days)
	if err != nil {
		vrt.Reach("refused")
		return
	}
	vrt.Assert("range-ordered-and-below-head", vrt.All(0 <= b, b <= e, e < newHead))
	vrt.Assert("begin-not-before-requested", vrt.Implies(start >= 0, b >= start))
	vrt.Assert("begin-not-before-nextgc-by-default", vrt.Implies(start < 0, b >= bkt.NextGCChunk))
	vrt.Assert("end-not-after-requested", vrt.Implies(vrt.All(end >= 0, end < newHead-1), e <= end))
	vrt.Assert("begin-has-data", size[b] > 0)
	// age limit: the first later file that has bytes on disk is older than the limit
	eff := int64(vrt.IteInt(days < 0, Conf.NoGCDays, days))
	found := false
	old := false
	for i := 0; i <= N; i++ {
		isNext := vrt.All(i > e, disk[i] > 0, !found)
		old = vrt.Any(old, vrt.All(isNext, now-int64(ts[i]) > eff*86400))
		found = vrt.Any(found, vrt.All(i > e, disk[i] > 0))
	}
	vrt.Assert("a-later-file-exists", found)
	vrt.Assert("age-limit-honoured", old)
}
