//go:build verif

package store

import (
	vrt "github.com/douban/gobeansdb/zzvrt"
)

func c08Conf(numBucket, height int) {
	Conf.NumBucket = numBucket
	Conf.TreeHeight = height
	Conf.InitTree()
}

// all legal (bucket count, tree height) pairs: depth + height <= 8
func c08PickConf() (depth, height int) {
	nb := []int{1, 16, 256}
	depth = vrt.Choice("depth", 3)
	height = 2 + vrt.Choice("height", 7-depth) // 2..8-depth
	c08Conf(nb[depth], height)
	return
}

// C08-K1: an item stored in a leaf is listed back with exactly its full 64-bit key hash,
// for every key hash, every bucket count and every tree height (leaf stores only the low
// TreeKeyHashLen bytes; the rest is reconstructed from the node path).
func VH_C08_K1_keyhash_reconstruction() {
	depth, height := c08PickConf()
	kh := vrt.U64("khash")
	ki := NewKeyInfoFromBytes([]byte("k"), kh, false)
	var sh SliceHeader
	req := &HTreeReq{ki: ki}
	req.item = HTreeItem{kh, Position{vrt.Choice("chunk", 2) * 997, vrt.U32("off") &^ 0xff}, vrt.I32("ver"), vrt.U16("vhash")}
	_, exist := sh.Set(req)
	vrt.Assert("fresh-leaf-no-exist", !exist)
	ni := &NodeInfo{path: ki.KeyPath[:depth+height-1]}
	n := 0
	sh.Iter(func(h uint64, it *HTreeItem) {
		n++
		vrt.Assert("listed-hash-is-the-key-hash", h == kh)
		vrt.Assert("listed-item-is-the-item", vrt.All(it.Ver == req.item.Ver, it.Vhash == req.item.Vhash,
			it.Pos.Offset == req.item.Pos.Offset, it.Pos.ChunkID == req.item.Pos.ChunkID))
	}, ni)
	vrt.Assert("exactly-one-item", n == 1)
	// no aliasing inside a leaf: a second hash with the same leaf path that is found as
	// "existing" must be the same hash
	kh2 := vrt.U64("khash2")
	ki2 := NewKeyInfoFromBytes([]byte("j"), kh2, false)
	same := true
	for i := 0; i < depth+height-1; i++ {
		same = vrt.All(same, ki.KeyPath[i] == ki2.KeyPath[i])
	}
	vrt.Assume(same)
	req2 := &HTreeReq{ki: ki2}
	found := sh.Get(req2)
	vrt.Assert("lookup-in-leaf-never-aliases", found == (kh2 == kh))
	sh.free()
}

type c08item struct {
	kh  uint64
	it  HTreeItem
	live bool
}

// C08-K2: leaf Set/Get/Remove behave as a map keyed by key hash (n<=2 resident items, one
// further operation), and the packed item encoding round-trips.
func VH_C08_K2_leaf_map() {
	c08Conf(1, 3)
	mask := Conf.TreeKeyHashMask
	var sh SliceHeader
	var model []c08item
	mk := func(tag string) (*KeyInfo, HTreeItem) {
		kh := vrt.U64(tag + ".kh")
		ki := &KeyInfo{KeyHash: kh}
		it := HTreeItem{kh, Position{vrt.Choice(tag+".chunk", 2) * 997, vrt.U32(tag+".off") &^ 0xff}, vrt.I32(tag + ".ver"), vrt.U16(tag + ".vh")}
		return ki, it
	}
	find := func(kh uint64) int {
		for i := range model {
			if model[i].kh&mask == kh&mask {
				return i
			}
		}
		return -1
	}
	n := vrt.Choice("resident", 3)
	for i := 0; i < n; i++ {
		ki, it := mk("pre")
		if find(ki.KeyHash) >= 0 {
			vrt.Assume(false)
		}
		sh.Set(&HTreeReq{ki: ki, item: it})
		model = append(model, c08item{kh: ki.KeyHash, it: it})
	}
	ki, it := mk("op")
	idx := find(ki.KeyHash)
	switch vrt.Choice("op", 3) {
	case 0:
		old, exist := sh.Set(&HTreeReq{ki: ki, item: it})
		vrt.Assert("set-exist-iff-present", exist == (idx >= 0))
		if idx >= 0 {
			m := model[idx].it
			vrt.Assert("set-returns-old", vrt.All(old.Ver == m.Ver, old.Vhash == m.Vhash, old.Pos.Offset == m.Pos.Offset, old.Pos.ChunkID == m.Pos.ChunkID))
			model[idx].it = it
		} else {
			model = append(model, c08item{kh: ki.KeyHash, it: it})
		}
	case 1:
		req := &HTreeReq{ki: ki}
		found := sh.Get(req)
		vrt.Assert("get-found-iff-present", found == (idx >= 0))
		if idx >= 0 {
			m := model[idx].it
			vrt.Assert("get-returns-item", vrt.All(req.item.Ver == m.Ver, req.item.Vhash == m.Vhash, req.item.Pos.Offset == m.Pos.Offset, req.item.Pos.ChunkID == m.Pos.ChunkID))
		}
	case 2:
		old, removed := sh.Remove(ki, Position{-1, 0})
		vrt.Assert("remove-iff-present", removed == (idx >= 0))
		if idx >= 0 {
			vrt.Assert("remove-returns-old", vrt.All(old.Ver == model[idx].it.Ver, old.Vhash == model[idx].it.Vhash))
			model = append(model[:idx], model[idx+1:]...)
		}
	}
	// final content = model (as a set)
	cnt := 0
	ni := &NodeInfo{path: []int{0, 0}}
	sh.Iter(func(h uint64, m *HTreeItem) {
		cnt++
		j := find(h)
		vrt.Assert("listed-item-is-in-model", j >= 0)
		if j >= 0 {
			w := model[j].it
			vrt.Assert("listed-item-equals-model", vrt.All(m.Ver == w.Ver, m.Vhash == w.Vhash, m.Pos.Offset == w.Pos.Offset, m.Pos.ChunkID == w.Pos.ChunkID))
		}
	}, ni)
	vrt.Assert("count-equals-model", cnt == len(model))
	sh.free()
}

// reference summary of a leaf: count of live items and sum of vhash * (khash>>32) mod 2^16
func c08summary(sh *SliceHeader, ni *NodeInfo) (count uint32, hash uint16) {
	sh.Iter(func(h uint64, m *HTreeItem) {
		if m.Ver > 0 {
			count++
			hash += m.Vhash * uint16(h>>32)
		}
	}, ni)
	return
}

// C08-U1: the incremental node summary is inductive: from any leaf holding 0..2 items whose
// node carries the reference summary, one set/remove of any key routed to that leaf leaves the
// node carrying the reference summary of the new content, invalidates every ancestor and
// touches no other leaf node.
func VH_C08_U1_incremental_summary() {
	c08Conf(1, 3)
	tree := newHTree(0, 0, 3)
	kh := vrt.U64("khash")
	ki := NewKeyInfoFromBytes([]byte("k"), kh, false)
	// fix the leaf (concrete path digits), keep everything else of the hash symbolic
	vrt.Assume(vrt.All(ki.KeyPath[0] == 3, ki.KeyPath[1] == 9))
	leafOff := 3*16 + 9
	path := []int{3, 9}
	ni := &NodeInfo{path: path}
	n := vrt.Choice("resident", 3)
	for i := 0; i < n; i++ {
		h2 := vrt.U64("pre.kh")
		k2 := NewKeyInfoFromBytes([]byte("p"), h2, false)
		vrt.Assume(vrt.All(k2.KeyPath[0] == 3, k2.KeyPath[1] == 9))
		r := &HTreeReq{ki: k2}
		r.item = HTreeItem{h2, Position{0, vrt.U32("pre.off") &^ 0xff}, vrt.I32("pre.ver"), vrt.U16("pre.vh")}
		tree.leafs[leafOff].Set(r)
	}
	// representation invariant of the pre-state
	c0, h0 := c08summary(&tree.leafs[leafOff], ni)
	node := &tree.levels[2][leafOff]
	node.count, node.hash = c0, h0
	tree.levels[0][0].isHashUpdated = true
	tree.levels[1][3].isHashUpdated = true
	other := tree.levels[2][leafOff^1]
	if vrt.Choice("op", 2) == 0 {
		meta := &Meta{Ver: vrt.I32("ver"), ValueHash: vrt.U16("vh")}
		tree.set(ki, meta, Position{0, vrt.U32("off") &^ 0xff})
	} else {
		// remove with a position filter (as GC does) or unconditionally (chunk -1)
		pos := Position{vrt.Choice("anychunk", 2) - 1, vrt.U32("rmoff") &^ 0xff}
		tree.remove(ki, pos)
	}
	c1, h1 := c08summary(&tree.leafs[leafOff], ni)
	vrt.Assert("count-is-number-of-live-items", node.count == c1)
	vrt.Assert("hash-is-sum-over-live-items", node.hash == h1)
	vrt.Assert("ancestors-invalidated", vrt.All(!tree.levels[0][0].isHashUpdated, !tree.levels[1][3].isHashUpdated))
	vrt.Assert("leaf-node-stays-valid", node.isHashUpdated)
	o2 := tree.levels[2][leafOff^1]
	vrt.Assert("other-leaf-untouched", vrt.All(o2.count == other.count, o2.hash == other.hash, o2.isHashUpdated == other.isHashUpdated))
	tree.release()
}

// C08-U2: lazy aggregation of an inner node: count = sum of children, hash = fold of the
// children's hashes with the "*97 when more than 256 keys" rule; an up-to-date node is not
// recomputed.
func VH_C08_U2_aggregate() {
	c08Conf(1, 3)
	tree := newHTree(0, 0, 3)
	var cnt [16]uint32
	var hs [16]uint16
	total := uint32(0)
	for i := 0; i < 16; i++ {
		cnt[i], hs[i] = vrt.U32("count"), vrt.U16("hash")
		vrt.Assume(cnt[i] < 1<<24)
		total += cnt[i]
		n := &tree.levels[2][5*16+i]
		n.count, n.hash, n.isHashUpdated = cnt[i], hs[i], true
	}
	parent := &tree.levels[1][5]
	parent.isHashUpdated = false
	parent.count, parent.hash = vrt.U32("stale.count"), vrt.U16("stale.hash")
	got := tree.updateNodes(1, 5)
	var want uint16
	for i := 0; i < 16; i++ {
		want = vrt.IteU16(total > 256, want*97, want) + hs[i]
	}
	vrt.Assert("parent-count", got.count == total)
	vrt.Assert("parent-hash", got.hash == want)
	vrt.Assert("parent-marked-updated", got.isHashUpdated)
	// an up-to-date node is returned as is
	parent.count, parent.hash = 7, 9
	got = tree.updateNodes(1, 5)
	vrt.Assert("updated-node-not-recomputed", vrt.All(got.count == 7, got.hash == 9))
	tree.release()
}
