//go:build verif

package store

import (
	"github.com/douban/gobeansdb/config"
	vrt "github.com/douban/gobeansdb/zzvrt"
)

// content classes: compressible text, and two sniffed media types of the not-compress list
func c10body(class, n int) []byte {
	b := make([]byte, n)
	switch class {
	case 0: // repetitive text
		for i := range b {
			b[i] = "the quick brown fox "[i%20]
		}
	case 1: // RIFF/WAVE header -> audio/wave
		copy(b, "RIFF\x24\x08\x00\x00WAVEfmt ")
	case 2: // ID3 tag -> audio/mpeg
		copy(b, "ID3\x03\x00\x00\x00\x00\x00\x21")
	case 3: // compressible head (text), incompressible tail (pseudo-random bytes)
		for i := range b {
			b[i] = "the quick brown fox "[i%20]
		}
		x := uint32(12345)
		for i := 10240; i < n; i++ {
			x = x*1664525 + 1013904223
			b[i] = byte(x >> 24)
		}
	}
	return b
}

// C10-U1: whether or not the server compresses, a get returns exactly the bytes and flags
// that were set, and the value hash kept for synchronisation is that of the uncompressed
// bytes: in the write buffer, after flush, and after a restart that rebuilds the indexes
// from the data files.
func VH_C10_U1_invisible() {
	s := newScen(262144, false, "ka")
	config.MCConf.BodyMax = 65536
	class := vrt.Choice("class", 4)
	// sizes around the 256-byte record boundary (24 + 2 + n), and a multi-block body whose
	// last two bytes (beyond the sniffed prefix) are symbolic
	vrt.QlzBoth() // explore both outcomes of every compression attempt
	sizes := []int{229, 230, 231, 600, 10300}
	n := sizes[vrt.Choice("size", len(sizes))]
	if class == 3 {
		n = 51200 // mixed content only makes sense above the 10 KB probe size
	}
	body := c10body(class, n)
	if n > 512 {
		t := vrt.Bytes("tail", 2)
		body[n-1], body[n-2] = t[0], t[1]
	}
	flag := vrt.U32("flag") &^ FLAG_COMPRESS // client-compressed bit free
	s.set("ka", body, flag, 0)
	want := Getvhash(body)
	ki := NewKeyInfoFromBytes([]byte("ka"), getKeyHash([]byte("ka")), false)
	meta, _, found := s.bkt().htree.get(ki)
	vrt.Assert("buffered:tree-vhash-is-of-uncompressed-bytes", vrt.All(found, meta.ValueHash == want))
	s.check("ka", "buffered")
	s.flush()
	s.check("ka", "flushed")
	// what is on disk: compressed iff allowed; never for client-compressed or not-compress types
	recs, ok := scanFile(genDataPath(s.dir, 0))
	vrt.Assert("file-well-formed", ok && len(recs) == 1)
	if ok && len(recs) == 1 {
		stored := recs[0].flag&FLAG_COMPRESS != 0
		mayCompress := vrt.All(flag&FLAG_CLIENT_COMPRESS == 0, class == 0 || class == 3, 24+2+n > 256)
		vrt.Assert("compressed-only-when-allowed", vrt.Implies(stored, mayCompress))
		vrt.Assert("client-flag-bits-preserved-on-disk", recs[0].flag&^FLAG_COMPRESS == flag)
	}
	s.reopen(7) // rebuild everything from the data file (decompress-then-vhash)
	meta, _, found = s.bkt().htree.get(ki)
	vrt.Assert("rebuilt:tree-vhash-is-of-uncompressed-bytes", vrt.All(found, meta.ValueHash == want))
	s.check("ka", "rebuilt")
	s.close()
}

// C10-U1r: the same end to end with the REAL quicklz.c (LLVM IR) instead of the contract
// stub: set -> server-side compression by qlz_compress -> buffered read, flush, file read
// (qlz_decompress), index rebuild: bytes, flags and value hash as set.
func VH_C10_U1_invisible_real() {
	vrt.QlzReal()
	s := newScen(262144, false, "ka")
	config.MCConf.BodyMax = 65536
	n := []int{231, 300, 600, 1500}[vrt.Choice("size", 4)]
	body := c10body(0, n)
	t := vrt.Bytes("tail", 2)
	body[n-1], body[n-2] = t[0], t[1]
	flag := vrt.U32("flag") &^ FLAG_COMPRESS
	s.set("ka", body, flag, 0)
	want := Getvhash(body)
	ki := NewKeyInfoFromBytes([]byte("ka"), getKeyHash([]byte("ka")), false)
	meta, _, found := s.bkt().htree.get(ki)
	vrt.Assert("buffered:tree-vhash-is-of-uncompressed-bytes", vrt.All(found, meta.ValueHash == want))
	s.check("ka", "buffered")
	s.flush()
	s.check("ka", "flushed")
	recs, ok := scanFile(genDataPath(s.dir, 0))
	vrt.Assert("file-well-formed", ok && len(recs) == 1)
	if ok && len(recs) == 1 {
		vrt.Assert("client-flag-bits-preserved-on-disk", recs[0].flag&^FLAG_COMPRESS == flag)
		vrt.Assert("really-compressed-on-disk-unless-client-compressed", vrt.Implies(flag&FLAG_CLIENT_COMPRESS == 0, recs[0].flag&FLAG_COMPRESS != 0 && len(recs[0].body) < n))
	}
	s.reopen(7)
	meta, _, found = s.bkt().htree.get(ki)
	vrt.Assert("rebuilt:tree-vhash-is-of-uncompressed-bytes", vrt.All(found, meta.ValueHash == want))
	s.check("ka", "rebuilt")
	s.close()
}
