//go:build verif

package store

import vrt "github.com/douban/gobeansdb/zzvrt"

// C01-K1: version arithmetic of one write, for every (old version, requested revision).
// Reference written from the property statement: auto-increment on set, negated
// increment on delete, explicit revision accepted only if larger in absolute value.
func VH_C01_K1_version() {
	oldv, ver := vrt.I32("oldv"), vrt.I32("ver")
	// |x| < 2^31-1: MinInt32 has no absolute value; outside the documented arithmetic
	vrt.Assume(vrt.All(oldv > -2147483647, oldv < 2147483647, ver > -2147483647, ver < 2147483647))
	got, ok := (&Bucket{}).checkAndUpdateVerison(oldv, ver)
	ao := oldv
	if ao < 0 {
		ao = -ao
	}
	switch {
	case ver == 0:
		vrt.Assert("auto-increment", vrt.All(ok, got == ao+1))
	case ver < 0:
		vrt.Assert("negated-increment", vrt.All(ok, got == -(ao+1)))
	default:
		vrt.Assert("explicit-accepted-iff-larger", ok == (ver > ao))
		if ok {
			vrt.Assert("explicit-kept", got == ver)
		}
	}
	if ok {
		g := got
		if g < 0 {
			g = -g
		}
		vrt.Assert("strictly-newer", g > ao)
	}
}
