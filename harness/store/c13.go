//go:build verif

package store

import (
	vrt "github.com/douban/gobeansdb/zzvrt"
)

// collideHash forces keys starting with 'c' onto one 64-bit hash (the package's own
// test hook: the getKeyHash variable), every other key keeps the real hash.
func collideHash() {
	getKeyHash = func(key []byte) uint64 {
		if len(key) > 0 && key[0] == 'c' {
			return 0x3a5c000012345678
		}
		return getKeyHashDefalut(key)
	}
}

// C13-S5a: colliding keys behave as independent keys through sets, overwrites, deletes, reads,
// and a restart with any index subset removed (collision table file kept).
func VH_C13_S5_independent() {
	collideHash()
	s := newScen(768, false, "ca", "cb", "kx")
	s.noVersion = map[string]bool{"ca": true, "cb": true}
	s.setS("ca")
	s.setS("cb")
	s.setS("kx")
	s.checkAll("after-sets")
	switch vrt.Choice("op", 4) {
	case 0:
		s.setS("ca")
	case 1:
		s.del("cb")
	case 2:
		s.del("ca")
	case 3:
		s.setS("cb")
	}
	s.checkAll("after-op")
	if vrt.Bool("merge-before-restart") {
		s.flush()
		s.bkt().hints.dumpAndMerge(true)
		s.bkt().hints.Merge(false)
	}
	s.reopen(vrt.Choice("rm", 8))
	s.checkAll("after-restart")
	s.close()
}

// C13-S5b: deleting one colliding key must never make the other unreadable, also through a
// restart without tree dump followed by GC.
func VH_C13_S5_delete_then_gc() {
	collideHash()
	s := newScen(768, false, "ca", "cb", "kx")
	s.noVersion = map[string]bool{"ca": true, "cb": true}
	s.setS("ca")
	s.setS("cb")
	which := vrt.Choice("delete", 2)
	victim, survivor := "cb", "ca"
	if which == 1 {
		victim, survivor = "ca", "cb"
	}
	_ = survivor
	s.del(victim) // file0 full: ca cb tombstone
	s.setS("kx")  // file1
	s.setS("kx")
	s.setS("kx")
	s.setS("kx") // file2 = head
	s.flush()
	if vrt.Bool("read-before") {
		s.checkAll("before-restart") // reading populates the collision table
	}
	rm := vrt.Choice("rm", 4) // bit0 tree dump, bit1 hints
	s.reopen(rm)
	s.checkAllKnown("after-restart", "F14", which == 0 && rm&1 == 1)
	s.gc(0, 1, vrt.Bool("merge"))
	s.checkAllKnown("after-gc", "F14", which == 0 && rm&1 == 1)
	s.close()
}

func VH_dbg_c13() {
	collideHash()
	s := newScen(768, false, "ca", "cb", "kx")
	s.noVersion = map[string]bool{"ca": true, "cb": true}
	s.setS("ca")
	s.setS("cb")
	s.del("cb")
	s.setS("kx")
	s.setS("kx")
	s.setS("kx")
	s.setS("kx")
	s.flush()
	s.reopen(0)
	ki := NewKeyInfoFromBytes([]byte("ca"), getKeyHash([]byte("ca")), false)
	meta, pos, found := s.bkt().htree.get(ki)
	vrt.Log("tree.get found %v ver %d pos %d/%d treeid %d/%d", found, meta.Ver, pos.ChunkID, pos.Offset, s.bkt().TreeID.Chunk, s.bkt().TreeID.Split)
	it, ck, err := s.bkt().hints.getItem(ki.KeyHash, "ca", false)
	vrt.Log("hints.getItem it-nil %v chunk %d err %v maxChunk %d nsplits0 %d", it == nil, ck, err, s.bkt().hints.maxChunkID, len(s.bkt().hints.chunks[0].splits))
	for i, sp := range s.bkt().hints.chunks[0].splits {
		vrt.Log("split %d file-nil %v buf-nil %v", i, sp.file == nil, sp.buf == nil)
		if sp.file != nil {
			vrt.Log("   file %s numKey %d nindex %d", sp.file.path, sp.file.numKey, len(sp.file.index))
			it2, err2 := sp.file.get(ki.KeyHash, "ca")
			vrt.Log("   file.get nil %v err %v", it2 == nil, err2)
		}
	}
	p, _, err := s.st.Get(ki, false)
	vrt.Log("Get p-nil %v err %v", p == nil, err)
}

// C13-S5c: the colliding keys' latest records live in a later data file (after a rotation) and
// every key is read twice: the second read of the key that does not own the tree slot is served
// from the collision table; then a restart and a GC pass.
func VH_C13_S5_rotation_reread() {
	collideHash()
	s := newScen(768, false, "ca", "cb", "kx")
	s.noVersion = map[string]bool{"ca": true, "cb": true}
	s.setS("ca")
	s.setS("cb")
	s.setS("kx") // file0 full
	s.setS("kx")
	if vrt.Bool("ca-first") {
		s.setS("ca")
		s.setS("cb") // file1 full
	} else {
		s.setS("cb")
		s.setS("ca") // file1 full
	}
	s.setS("kx") // file2 = head
	s.flush()
	s.checkAll("first-read")
	s.checkAll("second-read")
	switch vrt.Choice("then", 3) {
	case 0:
		s.reopen(vrt.Choice("rm", 2) * 7)
		s.checkAll("after-restart")
		s.checkAll("after-restart-second-read")
	case 1:
		s.gc(0, 1, vrt.Bool("merge"))
		s.checkAll("after-gc")
		s.checkAll("after-gc-second-read")
	case 2:
		s.setS("cb")
		s.checkAll("after-overwrite")
		s.checkAll("after-overwrite-second-read")
	}
	s.close()
}

// C13-S5d: placement family. The latest records of two colliding keys are placed independently
// in data file 0, 1 or the head (same file or different files, either order inside a file),
// the rest of each file is filled with an ordinary key. Every key is read twice while the
// records are still buffered, twice after the flush, and twice after a restart (all/no
// indexes), a GC pass over the two full files, or an overwrite of one colliding key.
func VH_C13_S5_placement() {
	collideHash()
	s := newScen(768, false, "ca", "cb", "kx")
	s.distinct = true
	s.noVersion = map[string]bool{"ca": true, "cb": true}
	fa, fb := vrt.Choice("file-of-ca", 3), vrt.Choice("file-of-cb", 3)
	caFirst := true
	if fa == fb {
		caFirst = vrt.Bool("ca-first")
	}
	early := vrt.Bool("read-while-buffered")
	for f := 0; f < 3; f++ {
		n := 0
		put := func(k string) { s.setS(k); n++ }
		if caFirst {
			if fa == f {
				put("ca")
			}
			if fb == f {
				put("cb")
			}
		} else {
			if fb == f {
				put("cb")
			}
			if fa == f {
				put("ca")
			}
		}
		if f == 2 {
			if n == 0 {
				put("kx")
			}
			break
		}
		for n < 3 {
			put("kx")
		}
	}
	if early {
		s.checkAll("buffered-first-read")
		s.checkAll("buffered-second-read")
	}
	s.flush()
	s.checkAll("first-read")
	s.checkAll("second-read")
	switch vrt.Choice("then", 3) {
	case 0:
		s.reopen(vrt.Choice("rm", 2) * 7)
		s.checkAll("after-restart")
		s.checkAll("after-restart-second-read")
	case 1:
		s.gc(0, 1, vrt.Bool("merge"))
		s.checkAll("after-gc")
		s.checkAll("after-gc-second-read")
	case 2:
		s.setS([]string{"ca", "cb"}[vrt.Choice("overwrite", 2)])
		s.checkAll("after-overwrite")
		s.checkAll("after-overwrite-second-read")
	}
	s.close()
}

// C13-S5e / C03: colliding keys, a MERGED hint index built by an ordinary merge, and a GC pass
// (with or without merging) whose destination is an earlier short file covered by that merged
// index: the older version of a colliding key recorded in the merged index must never be served
// once its newer record has been relocated; reads are checked twice after the pass and again
// after a restart.
func VH_C13_S5_merged_index_gc() {
	collideHash()
	s := newScen(768, false, "ca", "cb", "kx")
	s.distinct = true
	s.noVersion = map[string]bool{"ca": true, "cb": true}
	s.setS("ca") // file0, left short by the restart
	if vrt.Bool("two-in-file0") {
		s.setS("kx")
	}
	s.reopen(0)
	if vrt.Bool("ordinary-merge-after-restart") {
		s.bkt().hints.Merge(false) // merged index over the chunks dumped so far
	}
	first, second := "ca", "cb"
	if vrt.Bool("cb-first") {
		first, second = "cb", "ca"
	}
	// layout 0: both colliding records in the collected file; layout 1: the second one in the
	// head file (its hint stays in a hint buffer during the pass)
	sameFile := vrt.Choice("second-colliding-key-in-head", 2) == 0
	s.setS(first)
	if sameFile {
		s.setS(second)
		s.setS("kx") // file1 full
		s.setS("kx") // head
	} else {
		s.setS("kx")
		s.setS("kx") // file1 full
		s.setS(second) // head
	}
	s.flush()
	readBefore := vrt.Bool("read-before-gc")
	if readBefore {
		s.checkAll("before-gc") // reading enters the pair into the collision table
	}
	gcMerge := vrt.Bool("merge")
	s.gc(1, 1, gcMerge)
	// F25: a pass WITHOUT hint merging drops (or aliases) the record of a colliding key that does
	// not own the tree slot when both records sit in the collected file and the collision was
	// never recorded (keys not read since written, no merge): GC clears the file's hints
	// before scanning it, so nothing tells it that the hash is shared
	known := sameFile && !gcMerge && !readBefore
	s.checkAllKnown("after-gc", "F25", known)
	s.checkAllKnown("after-gc-second-read", "F25", known)
	s.reopen(vrt.Choice("rm", 2) * 7)
	s.checkAllKnown("after-gc-restart", "F25", known)
	s.close()
}

// C13-S5f: groups of THREE colliding keys. Two members are written (and, optionally, read, so
// the pair is already in the collision table), then the third member is written into the next
// data file and another member is overwritten after it (the tree slot no longer points at the
// third key). Every key must keep its own latest value: read twice, after a clean restart
// with all/no index files, after a GC pass with or without merging, and a delete of another
// member followed by a delete of the third key must both succeed and leave the last member
// readable.
func VH_C13_S5_three_keys() {
	collideHash()
	s := newScen(768, false, "ca", "cb", "cc", "kx")
	s.distinct = true
	s.noVersion = map[string]bool{"ca": true, "cb": true, "cc": true}
	s.setS("ca")
	s.setS("cb")
	s.setS("kx") // file0 full
	pairRead := vrt.Bool("pair-read-before-third")
	if pairRead {
		s.checkAll("pair") // enters ca/cb into the collision table
	}
	s.setS("cc") // file1: third member of the group
	other := []string{"ca", "cb"}[vrt.Choice("other-member", 2)]
	then := vrt.Choice("then", 3)
	if then == 2 {
		// F26: while the collision is not recorded (no member read since written, no merge) the
		// shared tree slot stands for whichever member was written last: after the delete of one
		// member the delete of another is refused as NOT_FOUND
		s.knownID, s.knownCond = "F26", !pairRead
		s.del(other)
		s.del("cc")
		s.knownID, s.knownCond = "", false
		s.setS("kx") // file1 full
	} else {
		s.setS(other)
		s.setS("kx") // file1 full
	}
	s.setS("kx") // head
	s.flush()
	readAfter := vrt.Bool("read-after-writes")
	if readAfter {
		s.checkAll("after-writes")
	}
	switch then {
	case 0:
		s.reopen(vrt.Choice("rm", 2) * 7)
	case 1:
		gcMerge := vrt.Bool("merge")
		s.gc(0, 1, gcMerge)
	}
	// F26 (same cause): an unrecorded three-key group is not reconstructed by a restart or a pass
	s.checkAllKnown("final-first-read", "F26", !pairRead && !readAfter)
	s.checkAllKnown("final-second-read", "F26", !pairRead && !readAfter)
	s.close()
}
