//go:build verif

package store

import (
	"bytes"

	vrt "github.com/douban/gobeansdb/zzvrt"
)

// c09mkBlocks makes a record occupying exactly nblocks 256-byte blocks: symbolic key (2 bytes),
// symbolic meta, 2 symbolic value bytes followed by a concrete filler (0x78) whose bytes can
// never parse as a record header (key size 0x78787878), so only real record starts resynchronise.
func c09mkBlocks(tag string, nblocks int) c09rec {
	r := c09mkRecord(tag, 2, 2)
	if nblocks > 1 {
		fill := bytes.Repeat([]byte{0x78}, 256*(nblocks-1))
		r.val = append(r.val, fill...)
	}
	return r
}

// C09-U3m: sequential scan over [intact][damaged, 1..2 blocks][intact, 1..3 blocks][intact][intact]:
// every intact record after the damage is yielded with its exact offset and content - in
// particular when the first intact record after the damage spans several blocks - and the
// scan then ends cleanly at the end of the file.
func VH_C09_U3_resync_multiblock() {
	vrt.Summarize("crc32_write")
	c09Conf()
	dir := vrt.TempDir()
	path := dir + "/000.data"
	nd := 1 + vrt.Choice("damaged-blocks", 2)
	n2 := 1 + vrt.Choice("next-blocks", 3)
	recs := []c09rec{c09mkBlocks("r0", 1), c09mkBlocks("rd", nd), c09mkBlocks("r2", n2), c09mkBlocks("r3", 1), c09mkBlocks("r4", 1+vrt.Choice("last-blocks", 2))}
	var buf bytes.Buffer
	var offs []int
	for _, r := range recs {
		offs = append(offs, buf.Len())
		wrapRecord(r.record()).append(&buf, true)
	}
	file := buf.Bytes()
	vrt.Assert("layout", vrt.All(len(file)&0xff == 0, offs[1] == 256, offs[2] == 256*(1+nd), offs[3] == 256*(1+nd+n2)))
	db := offs[1]
	blk := file[db : db+256]
	switch vrt.Choice("damage", 3) {
	case 0: // one byte of the key/value area replaced by a different byte
		pos := 24 + vrt.Choice("pos", 4)
		nb := vrt.U8("newbyte")
		vrt.Assume(nb != blk[pos])
		blk[pos] = nb
	case 1: // first block of the record zeroed
		for i := 0; i < 256; i++ {
			blk[i] = 0
		}
	case 2: // stored CRC replaced
		nc := vrt.Bytes("crc", 4)
		vrt.Assume(!vrt.BytesEq(nc, blk[0:4]))
		copy(blk[0:4], nc)
	}
	vrt.Assert("write", writeFileBytes(path, file) == nil)
	sr, _ := newDataStreamReader(path, 4096)
	defer sr.Close()
	rec, off, broken, err := sr.Next()
	vrt.Assert("record-before-damage", vrt.All(err == nil, rec != nil) && vrt.All(off == 0, broken == 0, c09sameQuiet(rec, recs[0])))
	for i := 2; i < len(recs); i++ {
		rec, off, broken, err = sr.Next()
		vrt.Assert("scan-yields-every-intact-record", vrt.All(err == nil, rec != nil))
		if err != nil || rec == nil {
			return
		}
		if int(off) == db {
			vrt.Reach("crc-collision-path") // only through a collision of the uninterpreted fold
			return
		}
		vrt.Assert("intact-record-at-its-offset", vrt.All(int(off) == offs[i], c09sameQuiet(rec, recs[i])))
		if i == 2 {
			vrt.Assert("broken-size-reported", int(broken) == 256*nd)
		} else {
			vrt.Assert("no-broken-size-later", broken == 0)
		}
		// the offset handed out can be read by position as well
		f, _ := os_Open(path)
		wr, rerr := readRecordAt(path, f, off)
		f.Close()
		vrt.Assert("reported-offset-readable-by-position", rerr == nil && c09sameQuiet(wr.rec, recs[i]))
	}
	rec, _, _, err = sr.Next()
	vrt.Assert("scan-ends-cleanly", vrt.All(rec == nil, err == nil))
	vrt.Assert("scanner-offset-at-eof", int(sr.offset) == len(file))
}
