//go:build verif

package store

import (
	vrt "github.com/douban/gobeansdb/zzvrt"
)

type s4listing struct {
	rootHash  uint16
	rootCount uint32
	nodes     [16][2]uint32 // (hash, count) of the 16 children of the bucket root
	items     []HTreeItem   // item-level listing of the whole bucket
}

// s4list reads the synchronisation listings of the bucket through the tree's listing functions
// (the text rendering of the same values is C11's subject).
func (s *scen) s4list() s4listing {
	var l s4listing
	tree := s.bkt().htree
	root := tree.Update()
	l.rootHash, l.rootCount = root.hash, root.count
	ki := &KeyInfo{KeyIsPath: true, Key: []byte(""), StringKey: ""}
	ki.Prepare()
	old := thresholdListKey
	thresholdListKey = 1 // node-level listing of every non-empty directory
	_, nodes := tree.listDir(ki)
	for i, n := range nodes {
		l.nodes[i] = [2]uint32{uint32(n.hash), n.count}
	}
	thresholdListKey = ThresholdListKeyDefault // item-level listing (few keys)
	items, _ := tree.listDir(ki)
	l.items = append(l.items, items...)
	thresholdListKey = old
	return l
}

// C08-S4: the listing is a function of the live content only. Store A reaches its content
// through a history (overwrites, deletes, then one of: nothing, clean restart with any index
// subset removed, GC, restart + GC, a delete made after a clean restart followed by a kill -
// i.e. a tree dump older than the hints replayed over it); store B receives exactly A's live
// keys with their versions and values directly. Per-prefix hashes and counts are identical,
// counts are the number of live keys, item listings agree on the live entries, and anything
// else A lists is a tombstone (negative version) of a deleted key.
func VH_C08_S4_listing_history_independent() {
	// keys chosen so that their hashes start with different hex digits (0, 3, 5, 6, 8; digit 0 is the sub-tree a one-bucket store caches when it loads a tree dump): every key
	// sits under its own child of the bucket root
	a := newScen(768, false, "kbaa", "kh", "kp", "kaa", "kea")
	a.distinct = true
	a.setS("kbaa")
	a.setS("kh")
	a.setS("kp") // file0
	a.setS("kbaa")
	a.setS("kaa")
	a.del("kh") // file1
	a.setS("kea")
	if vrt.Bool("delete-again") {
		a.del("kaa")
	} else {
		a.setS("kp")
	}
	a.flush()
	switch vrt.Choice("then", 6) {
	case 0:
	case 1:
		a.reopen(vrt.Choice("rm", 8))
	case 2:
		a.gc(0, 1, vrt.Bool("merge"))
	case 3:
		a.reopen(vrt.Choice("rm", 2) * 7)
		a.gc(0, 1, vrt.Bool("merge"))
	case 4:
		a.gc(0, 1, vrt.Bool("merge"))
		a.reopen(vrt.Choice("rm", 8))
	case 5:
		// clean restart (tree dump written), then a delete and a set, flushed, then a kill:
		// the next start loads the older tree dump and replays the newer hints over it
		a.reopen(0)
		a.del("kbaa")
		a.setS("kh")
		a.flush()
		if vrt.Bool("hints-dumped-before-kill") {
			a.bkt().hints.dumpAndMerge(false)
		}
		snap := vrt.SnapshotDir(a.dir)
		Conf.Home = snap
		a.dir = snap
		a.open()
	}
	a.checkAll("store-a")
	la := a.s4list()
	a.close()
	// store B: the same live content, written directly
	b := newScen(768, false, a.keys...)
	live := 0
	for _, k := range a.keys {
		m := a.model[k]
		if m.ver > 0 {
			b.set(k, m.body, m.flag, m.ver)
			live++
		}
	}
	b.flush()
	b.checkAll("store-b")
	lb := b.s4list()
	vrt.Assert("root-count-is-number-of-live-keys", vrt.All(int(la.rootCount) == live, int(lb.rootCount) == live))
	vrt.Assert("root-hash-history-independent", la.rootHash == lb.rootHash)
	same := true
	sum := uint32(0)
	for i := 0; i < 16; i++ {
		same = vrt.All(same, la.nodes[i] == lb.nodes[i])
		sum += la.nodes[i][1]
	}
	vrt.Assert("per-prefix-hash-and-count-history-independent", same)
	vrt.Assert("prefix-counts-add-up-to-live-keys", int(sum) == live)
	// item level: B lists exactly the live keys; A lists the same live entries, plus tombstones only
	vrt.Assert("direct-store-lists-exactly-the-live-keys", len(lb.items) == live)
	for _, ib := range lb.items {
		found := false
		for _, ia := range la.items {
			found = vrt.Any(found, vrt.All(ia.Keyhash == ib.Keyhash, ia.Ver == ib.Ver, ia.Vhash == ib.Vhash))
		}
		vrt.Assert("live-entry-listed-with-hash-version-valuehash", found)
	}
	nlive := 0
	for _, ia := range la.items {
		if ia.Ver > 0 {
			nlive++
			continue
		}
		// a tombstone entry: must belong to a deleted key
		isDeleted := false
		for _, k := range a.keys {
			if a.model[k].ver < 0 && getKeyHash([]byte(k)) == ia.Keyhash {
				isDeleted = true
			}
		}
		vrt.Assert("non-live-entry-is-a-tombstone-of-a-deleted-key", isDeleted)
	}
	vrt.Assert("no-live-entry-for-deleted-or-unknown-keys", nlive == live)
	b.close()
}
