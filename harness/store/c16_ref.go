//go:build verif

package store

import (
	"encoding/binary"

	vrt "github.com/douban/gobeansdb/zzvrt"
)

// ---- reference definitions, written from the historical beansdb specification ----

// refFnv1aSigned: FNV-1a 32 where each byte is sign-extended before the xor
// (the historical quirk: the C code hashed `char`).
func refFnv1aSigned(b []byte) uint32 {
	h := uint32(2166136261)
	for i := 0; i < len(b); i++ {
		x := uint32(b[i])
		x |= (0 - (x >> 7)) << 8 // sign extension of the byte, branch-free
		h = (h ^ x) * 16777619
	}
	return h
}

func rotl32(x uint32, r uint) uint32 { return (x << r) | (x >> (32 - r)) }

// refMurmur3_32: MurmurHash3 x86_32, seed 0, from the published algorithm.
func refMurmur3_32(data []byte) uint32 {
	const c1, c2 = 0xcc9e2d51, 0x1b873593
	h := uint32(0)
	n := len(data) / 4
	for i := 0; i < n; i++ {
		k := binary.LittleEndian.Uint32(data[4*i:])
		k *= c1
		k = rotl32(k, 15)
		k *= c2
		h ^= k
		h = rotl32(h, 13)
		h = h*5 + 0xe6546b64
	}
	tail := data[4*n:]
	var k uint32
	switch len(tail) {
	case 3:
		k ^= uint32(tail[2]) << 16
		fallthrough
	case 2:
		k ^= uint32(tail[1]) << 8
		fallthrough
	case 1:
		k ^= uint32(tail[0])
		k *= c1
		k = rotl32(k, 15)
		k *= c2
		h ^= k
	}
	h ^= uint32(len(data))
	h ^= h >> 16
	h *= 0x85ebca6b
	h ^= h >> 13
	h *= 0xc2b2ae35
	h ^= h >> 16
	return h
}

// refCrc32Step: one byte of reflected CRC-32 (poly 0xEDB88320), bit by bit.
func refCrc32Step(crc uint32, b byte) uint32 {
	crc ^= uint32(b)
	for k := 0; k < 8; k++ {
		// non-forking conditional: (crc&1) ? (crc>>1)^poly : crc>>1
		crc = vrt.IteU32(crc&1 != 0, (crc>>1)^0xEDB88320, crc>>1)
	}
	return crc
}

func refCrc32(parts ...[]byte) uint32 {
	crc := ^uint32(0)
	for _, p := range parts {
		for _, b := range p {
			crc = refCrc32Step(crc, b)
		}
	}
	return ^crc
}

func hashLens() (lo, hi int) {
	if vrt.Tier() > 0 {
		return 0, 12
	}
	return 0, 8
}

