//go:build verif

package store

import (
	"time"

	"github.com/douban/gobeansdb/cmem"
	"github.com/douban/gobeansdb/config"
	vrt "github.com/douban/gobeansdb/zzvrt"
)

// ---- scenario support: a one-bucket store with tiny files on the (model) file system ----

type scen struct {
	dir   string
	st    *HStore
	model map[string]*mval
	keys  []string
	// classification of read failures as a known finding (set by checkAllKnown)
	knownID   string
	knownCond bool
	noVersion map[string]bool // keys whose version numbers are outside the oracle (colliding keys, C13)
	// distinct: successive values written to one key are assumed to have different value hashes
	// (stated bound of the harness that sets it; removes the same-value fork in checkAndSet)
	distinct bool
}

// mval is the reference model's view of one key (statement of C01).
type mval struct {
	body    []byte
	flag    uint32
	ver     int32 // 0: never written; <0 deleted
	written bool
	vhash   uint16
	f1      bool // the key's version went through the F1 path (known finding)
}

func scenConf(dir string, fileMax int64, checkVHash bool) {
	Conf.InitDefault()
	Conf.NumBucket = 1
	Conf.BucketsStat = []int{1}
	Conf.Home = dir
	Conf.TreeHeight = 3
	Conf.Init()
	Conf.DataFileMax = fileMax
	Conf.SplitCap = scenSplitCap
	Conf.IndexIntervalSize = 300
	Conf.BufIOCap = 4096
	Conf.CheckVHash = checkVHash
	Conf.FlushWake = 1 << 40
	Conf.TreeDump = 3
	config.MCConf.BodyMax = 256
	config.MCConf.BodyInC = 0
	config.MCConf.MaxKeyLen = 250
	SecsBeforeDump = 0
}

var scenSplitCap int64 = 4

func newScen(fileMax int64, checkVHash bool, keys ...string) *scen {
	// CRC is an uninterpreted byte fold in scenarios (its definition: C16). FNV is real.
	vrt.Summarize("crc32_write")
	s := &scen{dir: vrt.TempDir(), model: map[string]*mval{}, keys: keys}
	scenConf(s.dir, fileMax, checkVHash)
	s.open()
	for _, k := range keys {
		s.model[k] = &mval{}
	}
	return s
}

func (s *scen) open() {
	st, err := NewHStore()
	vrt.Assert("store-opens", err == nil)
	s.st = st
	// Bucket.open loads the hints of chunks below the tree dump's id in a background
	// goroutine; the ordinary schedule is that it has finished before traffic arrives
	vrt.Drain()
	time.Sleep(30 * time.Millisecond)
}

func (s *scen) flush() { s.settle(); s.st.flushdatas(true) }

// settle waits until the asynchronous flush that follows a data-file rotation has run
// (the ordinary schedule; schedules where it has not run yet are explored by C02/C04 harnesses).
func (s *scen) settle() {
	ds := s.st.buckets[0].datas
	for i := 0; i < 2000; i++ {
		done := true
		for c := 0; c < ds.newHead; c++ {
			ds.chunks[c].Lock()
			if len(ds.chunks[c].wbuf) > 0 {
				done = false
			}
			ds.chunks[c].Unlock()
		}
		if done {
			return
		}
		time.Sleep(time.Millisecond)
	}
	vrt.Fail("post-rotation-flush-never-ran")
}

// allocBody gives the payload its body the way the memcache server does (Item.Alloc): C memory
// whenever the value is longer than MCConf.BodyInC (0 in the scenario configuration), so that
// the store's frees of WRITTEN values are real frees under the engine and natively.
func allocBody(p *Payload, body []byte) {
	if !p.CArray.Alloc(len(body)) {
		panic("alloc failed")
	}
	copy(p.Body, body)
}

func abs32(x int32) int32 {
	if x < 0 {
		return -x
	}
	return x
}

// set performs HStore.Set and updates the model per the documented version arithmetic.
// rev: 0 auto, >0 explicit revision.
func (s *scen) set(key string, body []byte, flag uint32, rev int32) {
	ki := NewKeyInfoFromBytes([]byte(key), 0, false)
	p := &Payload{Meta: Meta{Flag: flag, Ver: rev, TS: 1}}
	allocBody(p, body)
	cmem.DBRL.SetData.AddSizeAndCount(p.CArray.Cap)
	err := s.st.Set(ki, p)
	s.settle()
	vrt.Assert("set-no-error", err == nil)
	m := s.model[key]
	ao := abs32(m.ver)
	vh := Getvhash(body)
	if Conf.CheckVHash && m.ver > 0 && vh == m.vhash {
		// check_vhash: "not really set if the value hash is the same": value and flags stay;
		// an explicit revision still follows the revision rule (larger in absolute value)
		if rev != 0 {
			m.f1 = vrt.Any(m.f1, rev <= ao) // F1: the code lowers the version here
			if rev > ao {
				m.ver = rev
			}
		}
		return
	}
	switch {
	case rev == 0:
		m.ver = ao + 1
	case rev > ao:
		m.ver = rev
	default:
		return // explicit revision not larger: not accepted, state unchanged
	}
	m.body, m.flag, m.written, m.vhash = append([]byte{}, body...), flag, true, vh
}

// del performs a delete (a set with a negative version and no body).
func (s *scen) del(key string) {
	ki := NewKeyInfoFromBytes([]byte(key), 0, false)
	p := GetPayloadForDelete()
	err := s.st.Set(ki, p)
	s.settle()
	m := s.model[key]
	if m.ver > 0 {
		if s.knownID != "" {
			vrt.AssertKnown("delete-of-live-key-ok", s.knownID, s.knownCond, err == nil)
		} else {
			vrt.Assert("delete-of-live-key-ok", err == nil)
		}
		m.ver = -(m.ver + 1)
		m.body = nil
	} else if !s.noVersion[key] {
		vrt.Assert("delete-of-absent-key-reports-not-found", err != nil)
	}
}

// check reads key through HStore.Get and compares with the model (one solver query per read:
// version, flags, length and bytes are asserted as one conjunction).
func (s *scen) check(key, where string) {
	ki := NewKeyInfoFromBytes([]byte(key), 0, false)
	p, _, err := s.st.Get(ki, false)
	m := s.model[key]
	if err != nil {
		vrt.Log("%s: get %s error: %v", where, key, err)
	}
	if s.knownID != "" {
		vrt.AssertKnown(where+":get-no-error", s.knownID, s.knownCond, err == nil)
	} else {
		vrt.Assert(where+":get-no-error", err == nil)
	}
	if err != nil {
		return
	}
	if m.ver > 0 {
		if s.knownID != "" {
			vrt.AssertKnown(where+":live-key-found", s.knownID, s.knownCond, p != nil)
		} else {
			vrt.Assert(where+":live-key-found", p != nil)
		}
		if p != nil {
			rest := vrt.All(p.Flag == m.flag, len(p.Body) == len(m.body)) && vrt.BytesEq(p.Body, m.body)
			if s.noVersion[key] {
				if s.knownID != "" {
					vrt.AssertKnown(where+":read-equals-model(flags,value)", s.knownID, s.knownCond, vrt.All(p.Ver > 0, rest))
				} else {
					vrt.Assert(where+":read-equals-model(flags,value)", vrt.All(p.Ver > 0, rest))
				}
			} else if s.knownID != "" {
				vrt.AssertKnown(where+":read-equals-model(version,flags,value)", s.knownID, s.knownCond, vrt.All(p.Ver == m.ver, rest))
			} else {
				vrt.AssertKnown(where+":read-equals-model(version,flags,value)", "F1", vrt.All(m.f1, rest), vrt.All(p.Ver == m.ver, rest))
			}
			cmem.DBRL.GetData.SubSizeAndCount(p.CArray.Cap)
			p.CArray.Free()
		}
	} else {
		// deleted or never written: a get must not produce a live value
		if p != nil {
			if s.noVersion[key] {
				vrt.Assert(where+":deleted-key-not-live", p.Ver < 0)
			} else if s.knownID != "" {
				vrt.AssertKnown(where+":deleted-key-reads-as-tombstone", s.knownID, s.knownCond, vrt.All(p.Ver < 0, vrt.Implies(m.ver < 0, p.Ver == m.ver)))
			} else {
				vrt.AssertKnown(where+":deleted-key-reads-as-tombstone", "F1", m.f1, vrt.All(p.Ver < 0, vrt.Implies(m.ver < 0, p.Ver == m.ver)))
			}
			cmem.DBRL.GetData.SubSizeAndCount(p.CArray.Cap)
			p.CArray.Free()
		} else {
			vrt.Reach(where + ":miss")
		}
	}
}

// checkAllKnown is checkAll where read failures are classified as known finding id when cond holds.
func (s *scen) checkAllKnown(where, id string, cond bool) {
	s.knownID, s.knownCond = id, cond
	s.checkAll(where)
	s.knownID, s.knownCond = "", false
}

func (s *scen) checkAll(where string) {
	for _, k := range s.keys {
		s.check(k, where)
	}
}

func (s *scen) close() { s.st.Close() }

// C01-S1: a bounded history of sets/deletes over two keys with symbolic values, flags and
// revisions, flushes at symbolic points, tiny files so records rotate and bodies large enough
// to take the compression path; every read equals the reference map.
// quick: set(ka) then one free operation; thorough: three free operations.
func VH_C01_S1_model() {
	s := newScen(512, vrt.Bool("check_vhash"), "ka", "kb")
	steps := 2
	if vrt.Tier() > 0 {
		steps = 3
	}
	for i := 0; i < steps; i++ {
		free := vrt.Tier() > 0 || i > 0
		key := "ka"
		op := 0
		if free {
			key = s.keys[vrt.Choice("key", 2)]
			if vrt.Bool("flush-before") {
				s.flush()
			}
			op = vrt.Choice("op", 2)
		}
		switch op {
		case 0:
			// 0 or 2 symbolic bytes, optionally after a 250-byte concrete prefix (forces
			// rotation and the compression path)
			n := 2 * vrt.Choice("len", 2)
			body := vrt.Bytes("body", n)
			if vrt.Choice("big", 2) == 1 {
				body = append(make([]byte, 250), body...)
			}
			rev := vrt.I32("rev")
			vrt.Assume(vrt.All(rev >= 0, rev < 1000))
			flag := vrt.U32("flag") &^ (FLAG_COMPRESS | FLAG_CLIENT_COMPRESS)
			s.set(key, body, flag, rev)
		case 1:
			s.del(key)
		}
		s.checkAll("after-op")
	}
	s.flush()
	s.checkAll("after-flush")
	s.close()
}

func VH_dbg_open() {
	s := newScen(512, false, "ka")
	s.close()
}
