//go:build verif

package memcache

import (
	"bufio"
	"io"
)

// VrtNewServerConn builds a ServerConn over an arbitrary byte stream (the real constructor
// needs a net.Conn); everything else of the connection is the real code.
func VrtNewServerConn(rw io.ReadWriteCloser) *ServerConn {
	c := new(ServerConn)
	c.RemoteAddr = "verif"
	c.rwc = rw
	c.rbuf = bufio.NewReader(rw)
	c.wbuf = bufio.NewWriter(rw)
	c.req = new(Request)
	return c
}

// VrtClosing reports whether the connection decided to close after the current reply.
func (c *ServerConn) VrtClosing() bool { return c.closeAfterReply }

// VrtTokensFree returns the number of request tokens currently available.
func VrtTokensFree() int { return len(RL.Chan) }

func VrtTokensTotal() int { return cap(RL.Chan) }

// VrtBuffered is the number of request bytes read from the connection but not yet parsed.
func (c *ServerConn) VrtBuffered() int { return c.rbuf.Buffered() }
