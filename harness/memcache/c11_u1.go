//go:build verif

package memcache

import (
	"bufio"
	"bytes"

	"github.com/douban/gobeansdb/cmem"
	"github.com/douban/gobeansdb/config"
	vrt "github.com/douban/gobeansdb/zzvrt"
)

func u1Conf() {
	config.MCConf.BodyMax = 64
	config.MCConf.BodyBig = 32
	config.MCConf.BodyInC = 0
	config.MCConf.MaxKeyLen = 250
	config.MCConf.MaxReq = 2
	config.MCConf.FlushMax = 1 << 30
	cmem.DBRL.ResetAll()
	InitTokens()
}

func keyBytes(tag string, n int) string {
	b := vrt.Bytes(tag, n)
	for _, c := range b {
		vrt.Assume(vrt.All(c > ' ', c < 0x7f))
	}
	return string(b)
}

// C11-U1a: serialising a request and parsing it back yields the same request (binary-safe body).
func VH_C11_U1_request_roundtrip() {
	u1Conf()
	numbers := []int{0, 1, 65535, 2147483647}
	req := &Request{}
	switch vrt.Choice("cmd", 7) {
	case 0:
		req.Cmd = []string{"get", "gets"}[vrt.Choice("g", 2)]
		n := 1 + vrt.Choice("nkeys", 3)
		for i := 0; i < n; i++ {
			req.Keys = append(req.Keys, keyBytes("k", 1))
		}
	case 1:
		req.Cmd = []string{"set", "add", "replace", "append", "prepend"}[vrt.Choice("s", 5)]
		req.Keys = []string{keyBytes("k", 2)}
		req.Item = &Item{Flag: numbers[vrt.Choice("flag", 4)], Exptime: numbers[vrt.Choice("exp", 4)]}
		req.Item.Body = vrt.Bytes("body", vrt.Choice("blen", 4)) // any bytes, CR/LF/NUL included
		req.NoReply = vrt.Bool("noreply")
	case 2:
		req.Cmd = "cas"
		req.Keys = []string{keyBytes("k", 1)}
		req.Item = &Item{Flag: 3, Exptime: 0, Cas: numbers[vrt.Choice("cas", 4)]}
		req.Item.Body = vrt.Bytes("body", 2)
		req.NoReply = vrt.Bool("noreply")
	case 3:
		req.Cmd = "delete"
		req.Keys = []string{keyBytes("k", 2)}
		req.NoReply = vrt.Bool("noreply")
	case 4:
		req.Cmd = []string{"incr", "decr"}[vrt.Choice("i", 2)]
		req.Keys = []string{keyBytes("k", 1)}
		req.Item = &Item{}
		req.Item.Body = []byte([]string{"1", "42", "18446744073709551615"}[vrt.Choice("delta", 3)])
		req.NoReply = vrt.Bool("noreply")
	case 5:
		req.Cmd = []string{"quit", "version", "stats", "flush_all"}[vrt.Choice("m", 4)]
	case 6:
		// multi-key get whose command line is around and beyond the 4096-byte default buffer
		// of the connection's bufio.Reader (a legal request: every key is at most 250 bytes)
		req.Cmd = []string{"get", "gets"}[vrt.Choice("g", 2)]
		n := []int{16, 17, 18, 35}[vrt.Choice("nkeys-long", 4)]
		for i := 0; i < n; i++ {
			k := make([]byte, 240)
			for j := range k {
				k[j] = 'a' + byte((i+j)%26)
			}
			k[0] = keyBytes("k0", 1)[0]
			req.Keys = append(req.Keys, string(k))
		}
	}
	var buf bytes.Buffer
	vrt.Assert("request-serialises", req.Write(&buf) == nil)
	got := &Request{}
	err := got.Read(bufio.NewReader(bytes.NewReader(buf.Bytes())))
	vrt.Assert("request-parses", err == nil)
	if err != nil {
		return
	}
	same := got.Cmd == req.Cmd && len(got.Keys) == len(req.Keys) && got.NoReply == req.NoReply
	vrt.Assert("same-command", same)
	for i := range req.Keys {
		if i < len(got.Keys) {
			vrt.Assert("same-key", got.Keys[i] == req.Keys[i])
		}
	}
	if req.Item != nil {
		vrt.Assert("item-present", got.Item != nil)
		if got.Item != nil {
			vrt.Assert("same-body", vrt.All(len(got.Item.Body) == len(req.Item.Body)) && vrt.BytesEq(got.Item.Body, req.Item.Body))
			if req.Cmd != "incr" && req.Cmd != "decr" {
				vrt.Assert("same-item-meta", vrt.All(got.Item.Flag == req.Item.Flag, got.Item.Exptime == req.Item.Exptime, got.Item.Cas == req.Item.Cas))
			}
		}
	}
}

// C11-U1b: serialising a reply and parsing it back yields the same reply.
func VH_C11_U1_response_roundtrip() {
	u1Conf()
	resp := &Response{}
	switch vrt.Choice("kind", 4) {
	case 0:
		resp.Status = "VALUE"
		resp.Cas = vrt.Bool("cas")
		resp.Items = map[string]*Item{}
		n := vrt.Choice("nitems", 3)
		for i := 0; i < n; i++ {
			it := &Item{Flag: []int{0, 7, 65535}[vrt.Choice("flag", 3)], Cas: []int{0, 9}[vrt.Choice("casv", 2)]}
			it.Body = vrt.Bytes("body", vrt.Choice("blen", 3))
			resp.Items[[]string{"ka", "kb"}[i]] = it
		}
	case 1:
		resp.Status = []string{"STORED", "NOT_STORED", "DELETED", "NOT_FOUND", "OK", "END"}[vrt.Choice("st", 6)]
	case 2:
		resp.Status = []string{"ERROR", "SERVER_ERROR", "CLIENT_ERROR"}[vrt.Choice("er", 3)]
		resp.Msg = []string{"", "oops"}[vrt.Choice("msg", 2)]
	case 3:
		resp.Status = "INCR"
		resp.Msg = []string{"0", "42", "-7"}[vrt.Choice("num", 3)]
	}
	var buf bytes.Buffer
	vrt.Assert("reply-serialises", resp.Write(&buf) == nil)
	got := &Response{}
	err := got.Read(bufio.NewReader(bytes.NewReader(buf.Bytes())))
	vrt.Assert("reply-parses", err == nil)
	if err != nil {
		return
	}
	switch resp.Status {
	case "VALUE":
		vrt.Assert("same-item-count", len(got.Items) == len(resp.Items))
		for k, it := range resp.Items {
			g := got.Items[k]
			vrt.Assert("item-present", g != nil)
			if g != nil {
				vrt.Assert("same-item", vrt.All(g.Flag == it.Flag, len(g.Body) == len(it.Body), vrt.Implies(resp.Cas, g.Cas == it.Cas)) && vrt.BytesEq(g.Body, it.Body))
			}
		}
	default:
		vrt.Assert("same-status-and-message", vrt.All(got.Status == resp.Status, got.Msg == resp.Msg))
	}
	got.CleanBuffer()
}
