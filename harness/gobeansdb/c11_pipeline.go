//go:build verif

package gobeansdb

import (
	vrt "github.com/douban/gobeansdb/zzvrt"
)

// C11-U3: pipelining. Three commands, each drawn from a small alphabet of reply-expecting and
// noreply commands, arrive in ONE read. When the server has consumed them and waits for more
// input (the connection is still open) every reply owed so far must already have been written
// to the connection, in order and of the right kind - whatever the last command of the batch
// is - and a command sent afterwards is answered.
func VH_C11_U3_pipeline() {
	vrt.DeadlockIsViolation()
	vrt.AllocLimit(1 << 20)
	s := newSrv(int64(vrt.Choice("body_in_c", 2) * 4096))
	s.prefill()
	type cmd struct {
		line  []byte
		reply string // prefix of the expected reply, "" = noreply
	}
	alphabet := func(i int) cmd {
		switch i {
		case 0:
			return cmd{cat("get k\r\n"), "VALUE k "}
		case 1:
			return cmd{cat("get nokey\r\n"), "END\r\n"}
		case 2:
			return cmd{cat("set k 1 0 2\r\n", vrt.Bytes("pb", 2), "\r\n"), "STORED\r\n"}
		case 3:
			return cmd{cat("set k 1 0 5 noreply\r\nEND\r\n\r\n"), ""} // body that looks like a reply
		case 4:
			return cmd{cat("delete zz noreply\r\n"), ""}
		}
		return cmd{cat("delete zz\r\n"), "NOT_FOUND\r\n"}
	}
	var in []byte
	var want []string
	n := 3
	for i := 0; i < n; i++ {
		c := alphabet(vrt.Choice("cmd", 6))
		in = append(in, c.line...)
		if c.reply != "" {
			want = append(want, c.reply)
		}
	}
	out, closed, served := s.exchange(in, n)
	vrt.Assert("pipeline-connection-stays-open", !closed)
	vrt.Assert("pipeline-all-commands-served", served == n)
	cnt, ok := countReplies(out)
	vrt.Assert("pipeline-replies-well-formed", ok)
	vrt.Assert("every-owed-reply-written-before-the-server-waits-for-input", cnt == len(want))
	// order and kind
	rest := out
	for _, w := range want {
		l := replyLen(rest)
		if l <= 0 {
			break
		}
		vrt.Assert("replies-in-order", len(rest) >= len(w) && string(rest[:len(w)]) == w)
		rest = rest[l:]
	}
	s.quiescent("after-pipeline", "", false)
}
