//go:build verif

package gobeansdb

import (
	"strconv"

	"github.com/douban/gobeansdb/store"
	vrt "github.com/douban/gobeansdb/zzvrt"
)

// pmodel is the reference map of C01 at protocol level.
type pval struct {
	live bool
	body []byte
	flag int
	ver  int // 0 never written, <0 deleted
}

func pabs(x int) int {
	if x < 0 {
		return -x
	}
	return x
}

// C01-S1p: single-client model equivalence THROUGH THE PROTOCOL LAYER, including incr, delete
// of absent keys, multi-get and meta-get: a history of three commands drawn from
// {set k, delete k, incr k, incr n, delete n} on a store holding the string "k" and the
// counter "n", each followed by get k, get n, a multi-get and meta-gets; every reply equals the
// reply computed from a plain reference map (values, flags, statuses, versions via "?key").
func VH_C01_S1p_protocol_model() {
	vrt.DeadlockIsViolation()
	vrt.AllocLimit(1 << 20)
	s := newSrv(int64(vrt.Choice("body_in_c", 2) * 4096))
	s.prefill() // k = "v1" flag 5 (version 1); n = counter 7 (version 1)
	m := map[string]*pval{
		"k": {live: true, body: []byte("v1"), flag: 5, ver: 1},
		"n": {live: true, body: []byte("7"), flag: store.FLAG_INCR, ver: 1},
	}
	one := func(cmd []byte) []byte {
		out, closed, _ := s.exchange(cmd, 1)
		vrt.Assert("connection-stays-open", !closed)
		return out
	}
	expectGet := func(keys ...string) []byte {
		var b []byte
		seen := map[string]bool{}
		for _, k := range keys {
			v := m[k]
			if v == nil || !v.live || seen[k] {
				continue
			}
			seen[k] = true
			b = append(b, cat("VALUE ", k, " ", strconv.Itoa(v.flag), " ", strconv.Itoa(len(v.body)), "\r\n", v.body, "\r\n")...)
		}
		return append(b, "END\r\n"...)
	}
	steps := 3
	if vrt.Tier() == 0 {
		steps = 2
	}
	for i := 0; i < steps; i++ {
		switch vrt.Choice("op", 5) {
		case 0: // set k
			body := vrt.Bytes("body", 2)
			out := one(cat("set k 9 0 2\r\n", body, "\r\n"))
			vrt.Assert("set-reply", string(out) == "STORED\r\n")
			v := m["k"]
			v.live, v.body, v.flag, v.ver = true, body, 9, pabs(v.ver)+1
		case 1, 4: // delete k / delete n
			key := "k"
			if i >= 0 && vrt.Choice("which", 2) == 1 {
				key = "n"
			}
			out := one(cat("delete ", key, "\r\n"))
			v := m[key]
			if v.live {
				vrt.Assert("delete-live-reply", string(out) == "DELETED\r\n")
				v.live, v.body, v.ver = false, nil, -(v.ver + 1)
			} else {
				vrt.Assert("delete-absent-reply", string(out) == "NOT_FOUND\r\n")
			}
		case 2, 3: // incr k 3 / incr n 3
			key := "n"
			if vrt.Choice("which", 2) == 1 {
				key = "k"
			}
			out := one(cat("incr ", key, " 3\r\n"))
			v := m[key]
			switch {
			case v.live && v.flag == store.FLAG_INCR:
				old, _ := strconv.Atoi(string(v.body))
				vrt.Assert("incr-counter-reply", string(out) == strconv.Itoa(old+3)+"\r\n")
				v.body, v.ver = []byte(strconv.Itoa(old+3)), v.ver+1
			case v.live:
				// a live non-counter value cannot be incremented: no success reply, value unchanged
				vrt.Assert("incr-on-string-refused", string(out) != "3\r\n" && len(out) > 0)
			default:
				// deleted (or never written): the counter starts at the delta; it is a write, so the
				// version continues above the tombstone's
				vrt.Assert("incr-on-absent-key-reply", string(out) == "3\r\n")
				v.live, v.body, v.flag, v.ver = true, []byte("3"), store.FLAG_INCR, pabs(v.ver)+1
			}
		}
		vrt.Assert("get-k", string(one(cat("get k\r\n"))) == string(expectGet("k")))
		vrt.Assert("get-n", string(one(cat("get n\r\n"))) == string(expectGet("n")))
		// the items of a multi-get reply come in any order
		mg := string(one(cat("get k n zz\r\n")))
		vrt.Assert("multi-get", mg == string(expectGet("k", "n")) || mg == string(expectGet("n", "k")))
		// meta-get: "?key" answers "<ver> <vhash> <flag> <len> <ts>" also for a deleted key
		for _, key := range []string{"k", "n"} {
			out := one(cat("get ?", key, "\r\n"))
			v := m[key]
			want := strconv.Itoa(v.ver) + " "
			head := "VALUE ?" + key + " 0 "
			ok := len(out) > len(head) && string(out[:len(head)]) == head
			vrt.Assert("meta-get-reply-form", ok)
			if ok {
				// the body starts after the first CRLF
				p := 0
				for p+1 < len(out) && !(out[p] == '\r' && out[p+1] == '\n') {
					p++
				}
				body := out[p+2:]
				vrt.AssertKnown("meta-get-version-follows-the-arithmetic", "F24", v.live && v.flag == store.FLAG_INCR && v.ver > 2 && string(v.body) == "3",
					len(body) >= len(want) && string(body[:len(want)]) == want)
				f := fields(body[:len(body)-7]) // strip "\r\nEND\r\n"
				if len(f) == 5 {
					if v.live {
						vrt.Assert("meta-get-flag-and-length", string(f[2]) == strconv.Itoa(v.flag) && string(f[3]) == strconv.Itoa(len(v.body)))
					}
				} else {
					vrt.Fail("meta-get-five-fields")
				}
			}
		}
	}
	s.quiescent("after", "", false)
}
