//go:build verif

package gobeansdb

import (
	"io"
	"strconv"

	"github.com/douban/gobeansdb/cmem"
	"github.com/douban/gobeansdb/config"
	mc "github.com/douban/gobeansdb/memcache"
	"github.com/douban/gobeansdb/store"
	vrt "github.com/douban/gobeansdb/zzvrt"
)

// ---- one-bucket server over a byte stream ----

type pipeConn struct {
	in     []byte
	pos    int
	out    []byte
	closed bool
}

func (p *pipeConn) Read(b []byte) (int, error) {
	if p.pos >= len(p.in) {
		return 0, io.EOF
	}
	n := copy(b, p.in[p.pos:])
	p.pos += n
	return n, nil
}
func (p *pipeConn) Write(b []byte) (int, error) { p.out = append(p.out, b...); return len(b), nil }
func (p *pipeConn) Close() error                { p.closed = true; return nil }

type srv struct {
	hs     *store.HStore
	client mc.StorageClient
	stats  *mc.Stats
}

func newSrv(bodyInC int64) *srv {
	vrt.Summarize("crc32_write")
	dir := vrt.TempDir()
	store.Conf.InitDefault()
	store.Conf.NumBucket = 1
	store.Conf.BucketsStat = []int{1}
	store.Conf.Home = dir
	store.Conf.TreeHeight = 3
	store.Conf.Init()
	store.Conf.DataFileMax = 4096
	store.Conf.SplitCap = 8
	store.Conf.IndexIntervalSize = 300
	store.Conf.BufIOCap = 4096
	store.Conf.FlushWake = 1 << 40
	config.MCConf.BodyMax = 64
	config.MCConf.BodyBig = 32
	config.MCConf.BodyInC = bodyInC
	config.MCConf.MaxKeyLen = 250
	config.MCConf.MaxReq = 2
	config.MCConf.TimeoutMS = 3000
	config.MCConf.FlushMax = 1 << 30
	hs, err := store.NewHStore()
	vrt.Assert("store-opens", err == nil)
	vrt.Drain()
	mc.InitTokens()
	st := &Storage{hstore: hs}
	return &srv{hs: hs, client: st.Client(), stats: mc.NewStats()}
}

// exchange feeds the byte stream to one connection, serving commands until the input is used
// up or the connection closes; returns everything the server wrote.
func (s *srv) exchange(in []byte, maxCmds int) (out []byte, closed bool, served int) {
	p := &pipeConn{in: in}
	c := mc.VrtNewServerConn(p)
	for served < maxCmds && !c.VrtClosing() {
		err := c.ServeOnce(s.client, s.stats)
		served++
		if err != nil {
			break
		}
		if p.pos >= len(p.in) && c.VrtBuffered() == 0 {
			// input exhausted: one more ServeOnce would see EOF and close; stop here
			break
		}
	}
	return p.out, c.VrtClosing(), served
}

// quiescent asserts C12: all tokens back, the four ledgers at zero after a flush.
func (s *srv) quiescent(where string, known string, isKnown bool) {
	s.hs.VrtFlush()
	tok := mc.VrtTokensFree() == mc.VrtTokensTotal()
	led := cmem.DBRL.GetData.Count == 0 && cmem.DBRL.GetData.Size == 0 &&
		cmem.DBRL.SetData.Count == 0 && cmem.DBRL.SetData.Size == 0 &&
		cmem.DBRL.FlushData.Count == 0 && cmem.DBRL.FlushData.Size == 0 &&
		cmem.AllocRL.Count == 0 && cmem.AllocRL.Size == 0
	if !led {
		vrt.Log("%s ledger: get %d/%d set %d/%d flush %d/%d alloc %d/%d", where, cmem.DBRL.GetData.Count, cmem.DBRL.GetData.Size,
			cmem.DBRL.SetData.Count, cmem.DBRL.SetData.Size, cmem.DBRL.FlushData.Count, cmem.DBRL.FlushData.Size, cmem.AllocRL.Count, cmem.AllocRL.Size)
	}
	vrt.Assert(where+":all-tokens-returned", tok)
	if known != "" {
		vrt.AssertKnown(where+":ledgers-zero", known, isKnown, led)
	} else {
		vrt.Assert(where+":ledgers-zero", led)
	}
}

// ---- reply recogniser ----

// one reply of the memcached text protocol at the start of b; returns its length or -1.
func replyLen(b []byte) int {
	line := func(from int) int { // index after "\r\n" of the line starting at from, or -1
		for i := from; i+1 < len(b); i++ {
			if b[i] == '\r' && b[i+1] == '\n' {
				return i + 2
			}
		}
		return -1
	}
	hasPrefix := func(s string) bool { return len(b) >= len(s) && string(b[:len(s)]) == s }
	switch {
	case hasPrefix("VALUE "), hasPrefix("END\r\n"):
		pos := 0
		for {
			if len(b)-pos >= 5 && string(b[pos:pos+5]) == "END\r\n" {
				return pos + 5
			}
			if !(len(b)-pos >= 6 && string(b[pos:pos+6]) == "VALUE ") {
				return -1
			}
			e := line(pos)
			if e < 0 {
				return -1
			}
			// VALUE <key> <flags> <bytes>[ <cas>]
			f := fields(b[pos+6 : e-2])
			if len(f) < 3 || len(f) > 4 {
				return -1
			}
			n, err := strconv.Atoi(string(f[2]))
			if err != nil || n < 0 || e+n+2 > len(b) {
				return -1
			}
			if b[e+n] != '\r' || b[e+n+1] != '\n' {
				return -1
			}
			pos = e + n + 2
		}
	case hasPrefix("STAT "):
		pos := 0
		for {
			if len(b)-pos >= 5 && string(b[pos:pos+5]) == "END\r\n" {
				return pos + 5
			}
			e := line(pos)
			if e < 0 {
				return -1
			}
			pos = e
		}
	}
	for _, s := range []string{"STORED\r\n", "NOT_STORED\r\n", "DELETED\r\n", "NOT_FOUND\r\n", "OK\r\n", "ERROR\r\n"} {
		if hasPrefix(s) {
			return len(s)
		}
	}
	for _, s := range []string{"CLIENT_ERROR ", "SERVER_ERROR ", "VERSION ", "ERROR "} {
		if hasPrefix(s) {
			return line(0)
		}
	}
	// incr reply: a decimal number
	e := line(0)
	if e > 2 {
		if _, err := strconv.Atoi(string(b[:e-2])); err == nil {
			return e
		}
	}
	return -1
}

func fields(b []byte) [][]byte {
	var out [][]byte
	start := -1
	for i, c := range b {
		if c == ' ' {
			if start >= 0 {
				out = append(out, b[start:i])
				start = -1
			}
		} else if start < 0 {
			start = i
		}
	}
	if start >= 0 {
		out = append(out, b[start:])
	}
	return out
}

// countReplies splits out into well-formed replies; ok=false if some bytes are not a reply.
func countReplies(out []byte) (n int, ok bool) {
	for len(out) > 0 {
		l := replyLen(out)
		if l <= 0 {
			return n, false
		}
		out = out[l:]
		n++
	}
	return n, true
}

func isErrorReply(out []byte) bool {
	for _, s := range []string{"CLIENT_ERROR", "SERVER_ERROR", "ERROR", "NOT_STORED", "NOT_FOUND"} {
		if len(out) >= len(s) && string(out[:len(s)]) == s {
			return true
		}
	}
	return false
}

// prefill stores "k" -> "v1" (flag 5) and the counter "n" -> 7 through the client API.
func (s *srv) prefill() {
	it := &mc.Item{Flag: 5}
	it.Alloc(2)
	copy(it.Body, "v1")
	cmem.DBRL.SetData.AddSizeAndCount(it.CArray.Cap)
	ok, err := s.client.Set("k", it, false)
	vrt.Assert("prefill-set", ok && err == nil)
	cmem.DBRL.SetData.AddCount(1) // what Request.Read does for incr
	v, err := s.client.Incr("n", 7)
	vrt.Assert("prefill-incr", v == 7 && err == nil)
	s.hs.VrtFlush()
}

type cmdCase struct {
	name    string
	line    []byte // the command (may contain symbolic bytes)
	replies int    // well-formed replies expected for this command: 0, 1, or -1 = "at least zero error replies or close"
	closes  bool   // the command is expected to close the connection (quit)
	mutates bool   // changes key "k" (follow-up read is then not compared)
}

func cat(parts ...interface{}) []byte {
	var b []byte
	for _, p := range parts {
		switch x := p.(type) {
		case string:
			b = append(b, x...)
		case []byte:
			b = append(b, x...)
		case byte:
			b = append(b, x)
		}
	}
	return b
}

// symKey returns n symbolic key bytes that are ordinary key characters (no space, control,
// '@', '?'): the grammar's <key>.
func symKey(tag string, n int) []byte {
	k := vrt.Bytes(tag, n)
	for _, c := range k {
		vrt.Assume(vrt.All(c > ' ', c < 0x7f, c != '@', c != '?'))
	}
	return k
}

const nWellFormed = 18 + 19 + 3 + 6 + 3

// wellFormedCase builds only the selected case (symbolic holes are created per case).
func wellFormedCase(i int) cmdCase {
	numbers := []string{"0", "1", "5", "65535", "4294901759"} // no server-reserved 0x10000 bit
	mk := []func() cmdCase{
		func() cmdCase { return cmdCase{name: "get-hit", line: cat("get k\r\n"), replies: 1} },
		func() cmdCase {
			return cmdCase{name: "get-miss-symbolic-key", line: cat("get ", symKey("gk", 1), "\r\n"), replies: 1}
		},
		func() cmdCase { return cmdCase{name: "gets-hit", line: cat("gets k\r\n"), replies: 1} },
		func() cmdCase {
			return cmdCase{name: "get-multi", line: cat("get k ", []string{"k", "n", "zz"}[vrt.Choice("second", 3)], " n\r\n"), replies: 1}
		},
		func() cmdCase { return cmdCase{name: "get-meta", line: cat("get ?k\r\n"), replies: 1} },
		func() cmdCase { return cmdCase{name: "get-meta-ext", line: cat("get ??k\r\n"), replies: 1} },
		func() cmdCase {
			return cmdCase{name: "get-meta-missing", line: cat("get ?nokey\r\n"), replies: 1}
		},
		func() cmdCase {
			return cmdCase{name: "delete-hit", line: cat("delete k\r\n"), replies: 1, mutates: true}
		},
		func() cmdCase {
			return cmdCase{name: "delete-miss", line: cat("delete zz\r\n"), replies: 1}
		},
		func() cmdCase {
			return cmdCase{name: "delete-noreply", line: cat("delete k noreply\r\n"), replies: 0, mutates: true}
		},
		func() cmdCase { return cmdCase{name: "incr-counter", line: cat("incr n 3\r\n"), replies: 1} },
		func() cmdCase {
			return cmdCase{name: "incr-new", line: cat("incr newctr 2\r\n"), replies: 1}
		},
		func() cmdCase { return cmdCase{name: "stats", line: cat("stats\r\n"), replies: 1} },
		func() cmdCase { return cmdCase{name: "stats-arg", line: cat("stats cmd_get\r\n"), replies: 1} },
		func() cmdCase { return cmdCase{name: "version", line: cat("version\r\n"), replies: 1} },
		func() cmdCase { return cmdCase{name: "verbosity", line: cat("verbosity 1\r\n"), replies: 1} },
		func() cmdCase { return cmdCase{name: "flush_all", line: cat("flush_all\r\n"), replies: 1} },
		func() cmdCase { return cmdCase{name: "quit", line: cat("quit\r\n"), replies: 0, closes: true} },
	}
	if i < len(mk) {
		return mk[i]()
	}
	i -= len(mk)
	// directory listings '@' + hex path of every length 0..18
	if i <= 18 {
		l := i
		p := make([]byte, l)
		for k := range p {
			p[k] = "0123456789abcdef"[(k*7+3)%16]
		}
		return cmdCase{name: "list-dir-" + strconv.Itoa(l), line: cat("get @", p, "\r\n"), replies: 1}
	}
	i -= 19
	// storage commands: flags from boundary values, body with arbitrary bytes (CR/LF/NUL included)
	if i < 3 {
		verb := []string{"set", "add", "replace"}[i]
		body := vrt.Bytes("body."+verb, 2)
		return cmdCase{name: verb + "-2", line: cat(verb, " k ", numbers[vrt.Choice("flag", len(numbers))], " 0 2\r\n", body, "\r\n"), replies: 1, mutates: true}
	}
	i -= 3
	switch i {
	case 0:
		return cmdCase{name: "set-empty", line: cat("set k 1 0 0\r\n\r\n"), replies: 1, mutates: true}
	case 1:
		return cmdCase{name: "set-noreply", line: cat("set k 1 0 1 noreply\r\n", vrt.Bytes("b1", 1), "\r\n"), replies: 0, mutates: true}
	case 2:
		return cmdCase{name: "set-rev", line: cat("set k 1 7 1\r\n", vrt.Bytes("b2", 1), "\r\n"), replies: 1, mutates: true}
	case 3:
		return cmdCase{name: "cas", line: cat("cas k 1 0 1 99\r\n", vrt.Bytes("b3", 1), "\r\n"), replies: 1, mutates: true}
	case 4:
		return cmdCase{name: "set-max", line: cat("set k 0 0 64\r\n", make([]byte, 64), "\r\n"), replies: 1, mutates: true}
	}
	switch i {
	case 5:
		return cmdCase{name: "set-big-key", line: cat("set ", make250(), " 0 0 1\r\nx\r\n"), replies: 1}
	}
	// multi-key gets whose command line is just below / just above / far above the 4096-byte
	// default buffer of the connection reader; every key is legal (240 bytes), the last one hits
	n := []int{16, 17, 35}[i-6]
	line := []byte("get")
	for j := 0; j < n; j++ {
		k := make250()[:240]
		k[0] = 'A' + byte(j%26)
		k[1] = 'A' + byte(j/26)
		line = append(line, ' ')
		line = append(line, k...)
	}
	line = append(line, " k\r\n"...)
	return cmdCase{name: "get-multi-long-line-" + strconv.Itoa(n), line: line, replies: 1}
}

// asciiBytes: n symbolic bytes below 0x80 (multi-byte UTF-8 runes are outside the engine's
// string model; stated bound)
func asciiBytes(tag string, n int) []byte {
	b := vrt.Bytes(tag, n)
	for _, c := range b {
		vrt.Assume(c < 0x80)
	}
	return b
}

func make250() []byte {
	b := make([]byte, 250)
	for i := range b {
		b[i] = 'a' + byte(i%26)
	}
	return b
}

// C11-U2 / C12-U1: every well-formed command gets exactly one syntactically valid reply (none
// for noreply), the next command on the connection is answered correctly, and afterwards all
// tokens and buffer ledgers are back at zero.
func VH_C11_U2_wellformed() {
	vrt.DeadlockIsViolation()
	vrt.AllocLimit(1 << 20)
	s := newSrv(int64(vrt.Choice("body_in_c", 2) * 4096))
	s.prefill()
	c := wellFormedCase(vrt.Choice("case", nWellFormed))
	vrt.Tag(c.name)
	in := cat(c.line, "get k\r\n")
	out, closed, _ := s.exchange(in, 2)
	n, ok := countReplies(out)
	vrt.Log("%s: out=%q closed=%v n=%d ok=%v", c.name, out, closed, n, ok)
	vrt.Assert("replies-are-well-formed", ok)
	if c.closes {
		vrt.Assert("quit-closes-without-reply", vrt.All(closed, n == 0))
	} else {
		vrt.Assert("connection-stays-open", !closed)
		vrt.Assert("exactly-one-reply-per-command", n == c.replies+1)
		if !c.mutates && ok && n == c.replies+1 {
			want := "VALUE k 5 2\r\nv1\r\nEND\r\n"
			vrt.Assert("next-command-answered-correctly", len(out) >= len(want) && string(out[len(out)-len(want):]) == want)
		}
	}
	s.quiescent("after", "", false)
}

const nMalformed = 7 + 21

func malformedCase(i int) cmdCase {
	lens := []string{"-1", "abc", "65", "4294967301", "99999999999999999999", "-4294967291", ""}
	if i < len(lens) {
		l := lens[i]
		return cmdCase{name: "set-bad-length-" + l, line: cat("set k 0 0 ", l, "\r\n"), replies: -1}
	}
	i -= len(lens)
	mk := []func() cmdCase{
		func() cmdCase { return cmdCase{name: "set-bad-flag", line: cat("set k x 0 1\r\na\r\n"), replies: -1} },
		func() cmdCase { return cmdCase{name: "set-too-few", line: cat("set k 0\r\n"), replies: -1} },
		func() cmdCase {
			return cmdCase{name: "set-too-many", line: cat("set k 0 0 1 noreply extra more\r\n"), replies: -1}
		},
		func() cmdCase {
			return cmdCase{name: "set-bad-noreply", line: cat("set k 0 0 1 norepl\r\na\r\n"), replies: -1}
		},
		func() cmdCase {
			return cmdCase{name: "set-bad-terminator", line: cat("set k 0 0 1\r\na", vrt.Bytes("term", 2), "get k\r\n"), replies: -1, mutates: true}
		},
		func() cmdCase {
			return cmdCase{name: "set-invalid-key", line: cat("set ", []byte{1}, " 0 0 1\r\na\r\n"), replies: -1}
		},
		func() cmdCase { return cmdCase{name: "get-no-key", line: cat("get\r\n"), replies: -1} },
		func() cmdCase {
			return cmdCase{name: "get-long-key", line: cat("get ", make250(), "x\r\n"), replies: -1}
		},
		func() cmdCase { return cmdCase{name: "unknown-verb", line: cat("frobnicate k\r\n"), replies: -1} },
		func() cmdCase {
			return cmdCase{name: "symbolic-verb", line: cat(asciiBytes("verb", 3), " k\r\n"), replies: -1, mutates: true}
		},
		func() cmdCase { return cmdCase{name: "empty-line", line: cat("\r\n"), replies: -1} },
		func() cmdCase { return cmdCase{name: "lf-only", line: cat("get k\n"), replies: -1} },
		func() cmdCase { return cmdCase{name: "incr-not-a-number", line: cat("incr n abc\r\n"), replies: -1} },
		func() cmdCase {
			return cmdCase{name: "incr-on-string", line: cat("incr k 1\r\n"), replies: -1, mutates: true}
		},
		func() cmdCase { return cmdCase{name: "decr", line: cat("decr n 1\r\n"), replies: -1} },
		func() cmdCase { return cmdCase{name: "append", line: cat("append k 0 0 1\r\na\r\n"), replies: -1} },
		func() cmdCase { return cmdCase{name: "prepend", line: cat("prepend k 0 0 1\r\na\r\n"), replies: -1} },
		func() cmdCase {
			return cmdCase{name: "delete-too-many", line: cat("delete k 0 noreply extra\r\n"), replies: -1}
		},
		func() cmdCase { return cmdCase{name: "meta-empty", line: cat("get ?\r\n"), replies: -1} },
		func() cmdCase { return cmdCase{name: "raw-record-bad", line: cat("get @@123\r\n"), replies: -1} },
		func() cmdCase {
			return cmdCase{name: "dir-not-hex", line: cat("get @", asciiBytes("nothex", 1), "\r\n"), replies: -1}
		},
	}
	return mk[i]()
}

// C11-U2b / C12-U1b: malformed or unsupported commands yield only well-formed (error) replies or
// an orderly close, never a hang or a swallowed panic, the connection keeps working for the
// next command unless it was closed, and the ledgers return to zero.
func VH_C11_U2_malformed() {
	vrt.DeadlockIsViolation()
	vrt.AllocLimit(1 << 20)
	s := newSrv(int64(vrt.Choice("body_in_c", 2) * 4096))
	s.prefill()
	c := malformedCase(vrt.Choice("case", nMalformed))
	vrt.Tag(c.name)
	in := cat(c.line, "get k\r\n")
	out, closed, served := s.exchange(in, 4)
	n, ok := countReplies(out)
	vrt.Log("%s: out=%q closed=%v n=%d ok=%v served=%d", c.name, out, closed, n, ok, served)
	vrt.Assert("replies-are-well-formed", ok)
	// every command line served produced at most one reply, and a command that produced none
	// closed the connection (no silently swallowed command)
	vrt.Assert("no-command-swallowed-without-reply-or-close", vrt.Any(closed, n == served))
	vrt.Assert("at-most-one-reply-per-command", n <= served)
	if !closed && !c.mutates && ok {
		want := "VALUE k 5 2\r\nv1\r\nEND\r\n"
		vrt.Assert("later-command-answered-correctly", len(out) >= len(want) && string(out[len(out)-len(want):]) == want)
	}
	s.quiescent("after", "", false)
}

// C11-U2c / C12-U1c: a stream cut off at any position of a storage command closes the
// connection in an orderly way and leaks nothing.
func VH_C12_U1_truncated() {
	vrt.DeadlockIsViolation()
	s := newSrv(int64(vrt.Choice("body_in_c", 2) * 4096))
	s.prefill()
	// every storage verb that carries a body (the unsupported ones still have to consume it)
	verb := []string{"set k 3 0 4", "add k2 3 0 4", "replace k 3 0 4", "cas k 3 0 4 9", "append k 3 0 4", "prepend k 3 0 4", "set k 3 0 4 noreply"}[vrt.Choice("verb", 7)]
	full := cat(verb, "\r\n", vrt.Bytes("body", 4), "\r\n")
	cut := vrt.Choice("cut", len(full)) // keep 0..len-1 bytes
	out, closed, _ := s.exchange(full[:cut], 2)
	n, ok := countReplies(out)
	vrt.Assert("replies-are-well-formed", ok)
	vrt.Assert("truncated-command-gets-no-success-reply", vrt.Any(n == 0, isErrorReply(out)))
	vrt.Assert("truncated-stream-closes", vrt.Any(closed, cut == 0))
	s.quiescent("after", "", false)
}
