// Package smt: hash-consed bit-vector/bool terms with constant folding,
// SMT-LIB2 printing, a concrete evaluator, and a persistent solver process.
package smt

import (
	"fmt"
	"math/bits"
	"strings"
)

type Op uint8

const (
	OpConst Op = iota // bv const (W>0) or bool const (W==0)
	OpVar
	OpNot // bool
	OpAnd // bool, binary
	OpOr
	OpEq  // any sort -> bool
	OpIte // cond, a, b
	OpBvNot
	OpBvNeg
	OpBvAdd
	OpBvSub
	OpBvMul
	OpBvUdiv
	OpBvUrem
	OpBvSdiv
	OpBvSrem
	OpBvAnd
	OpBvOr
	OpBvXor
	OpBvShl
	OpBvLshr
	OpBvAshr
	OpBvUlt
	OpBvUle
	OpBvSlt
	OpBvSle
	OpConcat
	OpExtract // P1=hi P2=lo
	OpZext    // P1=extra bits
	OpSext
	OpUF     // uninterpreted function application, Name, W = result width (0=bool)
	OpSelect // array select: Args[0] array term, Args[1] index ; W elem width
	OpStore  // array store: arr, idx, val ; W = elem width, P1 = idx width  (array sort)
	OpArrVar // array variable; W elem width, P1 idx width
)

var opNames = [...]string{
	OpNot: "not", OpAnd: "and", OpOr: "or", OpEq: "=", OpIte: "ite",
	OpBvNot: "bvnot", OpBvNeg: "bvneg", OpBvAdd: "bvadd", OpBvSub: "bvsub", OpBvMul: "bvmul",
	OpBvUdiv: "bvudiv", OpBvUrem: "bvurem", OpBvSdiv: "bvsdiv", OpBvSrem: "bvsrem",
	OpBvAnd: "bvand", OpBvOr: "bvor", OpBvXor: "bvxor", OpBvShl: "bvshl", OpBvLshr: "bvlshr", OpBvAshr: "bvashr",
	OpBvUlt: "bvult", OpBvUle: "bvule", OpBvSlt: "bvslt", OpBvSle: "bvsle", OpConcat: "concat",
	OpSelect: "select", OpStore: "store",
}

type Term struct {
	Op    Op
	Args  []*Term
	W     int    // result width; 0 = Bool
	Val   uint64 // OpConst
	Name  string // OpVar / OpUF / OpArrVar
	P1    int
	P2    int
	IsArr bool
	ID    int
	B     *Builder
}

func (t *Term) IsConst() bool { return t.Op == OpConst }
func (t *Term) IsBool() bool  { return t.W == 0 && !t.IsArr }
func (t *Term) IsTrue() bool  { return t.Op == OpConst && t.W == 0 && t.Val == 1 }
func (t *Term) IsFalse() bool { return t.Op == OpConst && t.W == 0 && t.Val == 0 }

type key struct {
	op         Op
	a, b, c    int
	w          int
	val        uint64
	p1, p2     int
	name       string
}

// Builder creates hash-consed terms. Not safe for concurrent use.
type Builder struct {
	tab   map[key]*Term
	next  int
	Vars  []*Term // declared variables in creation order
	vset  map[string]*Term
	UFs   map[string][]int // name -> arg widths..., last = result width
	Aux   interface{}      // owner context (set by the engine)
}

func NewBuilder() *Builder {
	return &Builder{tab: make(map[key]*Term), vset: make(map[string]*Term), UFs: make(map[string][]int)}
}

func mask(w int) uint64 {
	if w >= 64 {
		return ^uint64(0)
	}
	return (uint64(1) << uint(w)) - 1
}

func (b *Builder) mk(op Op, w int, val uint64, p1, p2 int, name string, args ...*Term) *Term {
	k := key{op: op, w: w, val: val, p1: p1, p2: p2, name: name, a: -1, b: -1, c: -1}
	if len(args) > 0 {
		k.a = args[0].ID
	}
	if len(args) > 1 {
		k.b = args[1].ID
	}
	if len(args) > 2 {
		k.c = args[2].ID
	}
	if len(args) > 3 {
		var sb strings.Builder
		sb.WriteString(name)
		for _, a := range args[3:] {
			fmt.Fprintf(&sb, ",%d", a.ID)
		}
		k.name = sb.String()
	}
	if t, ok := b.tab[k]; ok {
		return t
	}
	t := &Term{Op: op, Args: args, W: w, Val: val, P1: p1, P2: p2, Name: name, ID: b.next, B: b}
	b.next++
	b.tab[k] = t
	return t
}

func (b *Builder) NumTerms() int { return b.next }

func (b *Builder) Const(w int, v uint64) *Term {
	if w <= 0 || w > 64 {
		panic(fmt.Sprintf("smt: bad width %d", w))
	}
	return b.mk(OpConst, w, v&mask(w), 0, 0, "")
}
func (b *Builder) Bool(v bool) *Term {
	if v {
		return b.mk(OpConst, 0, 1, 0, 0, "")
	}
	return b.mk(OpConst, 0, 0, 0, 0, "")
}
// ConstW is Const for w>0 and Bool(v!=0) for w==0.
func (b *Builder) ConstW(w int, v uint64) *Term {
	if w == 0 {
		return b.Bool(v != 0)
	}
	return b.Const(w, v)
}
func (b *Builder) True() *Term  { return b.Bool(true) }
func (b *Builder) False() *Term { return b.Bool(false) }

// Var declares (or returns) a bit-vector variable (w>0) or boolean (w==0).
func (b *Builder) Var(name string, w int) *Term {
	if t, ok := b.vset[name]; ok {
		if t.W != w {
			panic("smt: var redeclared with different width: " + name)
		}
		return t
	}
	t := b.mk(OpVar, w, 0, 0, 0, name)
	b.vset[name] = t
	b.Vars = append(b.Vars, t)
	return t
}

func (b *Builder) ArrVar(name string, idxW, elemW int) *Term {
	if t, ok := b.vset[name]; ok {
		return t
	}
	t := b.mk(OpArrVar, elemW, 0, idxW, 0, name)
	t.IsArr = true
	b.vset[name] = t
	b.Vars = append(b.Vars, t)
	return t
}

func (b *Builder) Select(arr, idx *Term) *Term {
	// read-over-write simplification with constant indices
	for arr.Op == OpStore {
		si := arr.Args[1]
		if si == idx {
			return arr.Args[2]
		}
		if si.IsConst() && idx.IsConst() {
			arr = arr.Args[0]
			continue
		}
		break
	}
	return b.mk(OpSelect, arr.W, 0, 0, 0, "", arr, idx)
}

func (b *Builder) Store(arr, idx, val *Term) *Term {
	t := b.mk(OpStore, arr.W, 0, arr.P1, 0, "", arr, idx, val)
	t.IsArr = true
	return t
}

// UF applies an uninterpreted function. resW==0 means Bool result.
func (b *Builder) UF(name string, resW int, args ...*Term) *Term {
	sig := make([]int, 0, len(args)+1)
	for _, a := range args {
		sig = append(sig, a.W)
	}
	sig = append(sig, resW)
	if old, ok := b.UFs[name]; ok {
		if fmt.Sprint(old) != fmt.Sprint(sig) {
			panic("smt: UF signature mismatch: " + name)
		}
	} else {
		b.UFs[name] = sig
	}
	return b.mk(OpUF, resW, 0, 0, 0, name, args...)
}

func (b *Builder) Not(x *Term) *Term {
	if x.IsConst() {
		return b.Bool(x.Val == 0)
	}
	if x.Op == OpNot {
		return x.Args[0]
	}
	return b.mk(OpNot, 0, 0, 0, 0, "", x)
}

func (b *Builder) And(x, y *Term) *Term {
	if x.IsConst() {
		if x.Val == 0 {
			return x
		}
		return y
	}
	if y.IsConst() {
		if y.Val == 0 {
			return y
		}
		return x
	}
	if x == y {
		return x
	}
	return b.mk(OpAnd, 0, 0, 0, 0, "", x, y)
}

func (b *Builder) Or(x, y *Term) *Term {
	if x.IsConst() {
		if x.Val == 1 {
			return x
		}
		return y
	}
	if y.IsConst() {
		if y.Val == 1 {
			return y
		}
		return x
	}
	if x == y {
		return x
	}
	return b.mk(OpOr, 0, 0, 0, 0, "", x, y)
}

func (b *Builder) Implies(x, y *Term) *Term { return b.Or(b.Not(x), y) }

func (b *Builder) Eq(x, y *Term) *Term {
	if x == y {
		return b.True()
	}
	if x.IsConst() && y.IsConst() {
		return b.Bool(x.Val == y.Val)
	}
	if x.W != y.W {
		panic(fmt.Sprintf("smt: Eq width mismatch %d vs %d", x.W, y.W))
	}
	if x.W == 0 && !x.IsArr {
		if x.IsConst() {
			if x.Val == 1 {
				return y
			}
			return b.Not(y)
		}
		if y.IsConst() {
			if y.Val == 1 {
				return x
			}
			return b.Not(x)
		}
	}
	if x.ID > y.ID {
		x, y = y, x
	}
	return b.mk(OpEq, 0, 0, 0, 0, "", x, y)
}

func (b *Builder) Ite(c, x, y *Term) *Term {
	if c.IsConst() {
		if c.Val == 1 {
			return x
		}
		return y
	}
	if x == y {
		return x
	}
	if x.W == 0 && !x.IsArr {
		if x.IsTrue() && y.IsFalse() {
			return c
		}
		if x.IsFalse() && y.IsTrue() {
			return b.Not(c)
		}
	}
	t := b.mk(OpIte, x.W, 0, x.P1, 0, "", c, x, y)
	t.IsArr = x.IsArr
	return t
}

func sx(v uint64, w int) int64 {
	if w >= 64 {
		return int64(v)
	}
	sh := uint(64 - w)
	return int64(v<<sh) >> sh
}

func foldBin(op Op, w int, x, y uint64) (uint64, bool) {
	m := mask(w)
	switch op {
	case OpBvAdd:
		return (x + y) & m, true
	case OpBvSub:
		return (x - y) & m, true
	case OpBvMul:
		return (x * y) & m, true
	case OpBvUdiv:
		if y == 0 {
			return m, true
		}
		return x / y, true
	case OpBvUrem:
		if y == 0 {
			return x, true
		}
		return x % y, true
	case OpBvSdiv:
		a, c := sx(x, w), sx(y, w)
		if c == 0 {
			if a >= 0 {
				return m, true
			}
			return 1, true
		}
		if c == -1 {
			return uint64(-a) & m, true
		}
		return uint64(a/c) & m, true
	case OpBvSrem:
		a, c := sx(x, w), sx(y, w)
		if c == 0 {
			return x, true
		}
		if c == -1 {
			return 0, true
		}
		return uint64(a%c) & m, true
	case OpBvAnd:
		return x & y, true
	case OpBvOr:
		return x | y, true
	case OpBvXor:
		return x ^ y, true
	case OpBvShl:
		if y >= uint64(w) {
			return 0, true
		}
		return (x << y) & m, true
	case OpBvLshr:
		if y >= uint64(w) {
			return 0, true
		}
		return x >> y, true
	case OpBvAshr:
		a := sx(x, w)
		if y >= uint64(w) {
			y = uint64(w - 1)
		}
		return uint64(a>>y) & m, true
	}
	return 0, false
}

func (b *Builder) bin(op Op, x, y *Term) *Term {
	if x.W != y.W || x.W == 0 {
		panic(fmt.Sprintf("smt: %s width mismatch %d vs %d", opNames[op], x.W, y.W))
	}
	w := x.W
	if x.IsConst() && y.IsConst() {
		if v, ok := foldBin(op, w, x.Val, y.Val); ok {
			return b.Const(w, v)
		}
	}
	// identities
	switch op {
	case OpBvAdd, OpBvOr, OpBvXor:
		if x.IsConst() && x.Val == 0 {
			return y
		}
		if y.IsConst() && y.Val == 0 {
			return x
		}
		if op == OpBvXor && x == y {
			return b.Const(w, 0)
		}
		if op == OpBvOr && x == y {
			return x
		}
	case OpBvSub:
		if y.IsConst() && y.Val == 0 {
			return x
		}
		if x == y {
			return b.Const(w, 0)
		}
	case OpBvAnd:
		if x.IsConst() && x.Val == 0 {
			return x
		}
		if y.IsConst() && y.Val == 0 {
			return y
		}
		if x.IsConst() && x.Val == mask(w) {
			return y
		}
		if y.IsConst() && y.Val == mask(w) {
			return x
		}
		if x == y {
			return x
		}
	case OpBvMul:
		// c1*(c2*z) = (c1*c2)*z  (keeps chains of multiplications by constants flat)
		if x.IsConst() && y.Op == OpBvMul {
			if y.Args[0].IsConst() {
				return b.bin(OpBvMul, b.Const(w, x.Val*y.Args[0].Val), y.Args[1])
			}
			if y.Args[1].IsConst() {
				return b.bin(OpBvMul, b.Const(w, x.Val*y.Args[1].Val), y.Args[0])
			}
		}
		if y.IsConst() && x.Op == OpBvMul {
			if x.Args[0].IsConst() {
				return b.bin(OpBvMul, b.Const(w, y.Val*x.Args[0].Val), x.Args[1])
			}
			if x.Args[1].IsConst() {
				return b.bin(OpBvMul, b.Const(w, y.Val*x.Args[1].Val), x.Args[0])
			}
		}
		if x.IsConst() && x.Val == 1 {
			return y
		}
		if y.IsConst() && y.Val == 1 {
			return x
		}
		if (x.IsConst() && x.Val == 0) || (y.IsConst() && y.Val == 0) {
			return b.Const(w, 0)
		}
	case OpBvShl, OpBvLshr, OpBvAshr:
		if y.IsConst() && y.Val == 0 {
			return x
		}
		if y.IsConst() && y.Val >= uint64(w) && op != OpBvAshr {
			return b.Const(w, 0)
		}
		// shifts of zero-extended / byte-structured values by constants: let solver do it
	}
	switch op {
	case OpBvAdd, OpBvMul, OpBvAnd, OpBvOr, OpBvXor:
		if x.ID > y.ID {
			x, y = y, x
		}
	}
	return b.mk(op, w, 0, 0, 0, "", x, y)
}

func (b *Builder) Add(x, y *Term) *Term  { return b.bin(OpBvAdd, x, y) }
func (b *Builder) Sub(x, y *Term) *Term  { return b.bin(OpBvSub, x, y) }
func (b *Builder) Mul(x, y *Term) *Term  { return b.bin(OpBvMul, x, y) }
func (b *Builder) Udiv(x, y *Term) *Term { return b.bin(OpBvUdiv, x, y) }
func (b *Builder) Urem(x, y *Term) *Term { return b.bin(OpBvUrem, x, y) }
func (b *Builder) Sdiv(x, y *Term) *Term { return b.bin(OpBvSdiv, x, y) }
func (b *Builder) Srem(x, y *Term) *Term { return b.bin(OpBvSrem, x, y) }
func (b *Builder) BvAnd(x, y *Term) *Term { return b.bin(OpBvAnd, x, y) }
func (b *Builder) BvOr(x, y *Term) *Term {
	t := b.bin(OpBvOr, x, y)
	if t.Op == OpBvOr {
		if ls, ok := lanesOf(t, 0); ok && len(ls) > 1 {
			if m, ok := b.mergeLanes(ls, t.W); ok {
				return m
			}
		}
	}
	return t
}
func (b *Builder) BvXor(x, y *Term) *Term { return b.bin(OpBvXor, x, y) }
func (b *Builder) Shl(x, y *Term) *Term   { return b.bin(OpBvShl, x, y) }
func (b *Builder) Lshr(x, y *Term) *Term  { return b.bin(OpBvLshr, x, y) }
func (b *Builder) Ashr(x, y *Term) *Term  { return b.bin(OpBvAshr, x, y) }

func (b *Builder) BvNot(x *Term) *Term {
	if x.IsConst() {
		return b.Const(x.W, ^x.Val)
	}
	if x.Op == OpBvNot {
		return x.Args[0]
	}
	return b.mk(OpBvNot, x.W, 0, 0, 0, "", x)
}

func (b *Builder) Neg(x *Term) *Term {
	if x.IsConst() {
		return b.Const(x.W, -x.Val)
	}
	return b.mk(OpBvNeg, x.W, 0, 0, 0, "", x)
}

func (b *Builder) cmp(op Op, x, y *Term) *Term {
	if x.W != y.W || x.W == 0 {
		panic(fmt.Sprintf("smt: cmp width mismatch %d vs %d", x.W, y.W))
	}
	if x.IsConst() && y.IsConst() {
		switch op {
		case OpBvUlt:
			return b.Bool(x.Val < y.Val)
		case OpBvUle:
			return b.Bool(x.Val <= y.Val)
		case OpBvSlt:
			return b.Bool(sx(x.Val, x.W) < sx(y.Val, x.W))
		case OpBvSle:
			return b.Bool(sx(x.Val, x.W) <= sx(y.Val, x.W))
		}
	}
	if x == y {
		return b.Bool(op == OpBvUle || op == OpBvSle)
	}
	if op == OpBvUlt && y.IsConst() && y.Val == 0 {
		return b.False()
	}
	if op == OpBvUle && x.IsConst() && x.Val == 0 {
		return b.True()
	}
	// operand with known leading zeros vs. constant beyond its range
	if op == OpBvUlt || op == OpBvUle {
		if y.IsConst() {
			if eff := x.W - LeadingZeros(x); eff < 64 && y.Val > mask(eff) {
				return b.True()
			}
		}
	}
	return b.mk(op, 0, 0, 0, 0, "", x, y)
}

func (b *Builder) Ult(x, y *Term) *Term { return b.cmp(OpBvUlt, x, y) }
func (b *Builder) Ule(x, y *Term) *Term { return b.cmp(OpBvUle, x, y) }
func (b *Builder) Slt(x, y *Term) *Term { return b.cmp(OpBvSlt, x, y) }
func (b *Builder) Sle(x, y *Term) *Term { return b.cmp(OpBvSle, x, y) }

func (b *Builder) Extract(x *Term, hi, lo int) *Term {
	if hi < lo || hi >= x.W {
		panic(fmt.Sprintf("smt: bad extract [%d:%d] of width %d", hi, lo, x.W))
	}
	w := hi - lo + 1
	if w == x.W {
		return x
	}
	if x.IsConst() {
		return b.Const(w, x.Val>>uint(lo))
	}
	switch x.Op {
	case OpZext, OpSext:
		in := x.Args[0]
		if hi < in.W {
			return b.Extract(in, hi, lo)
		}
		if x.Op == OpZext && lo >= in.W {
			return b.Const(w, 0)
		}
	case OpExtract:
		return b.Extract(x.Args[0], hi+x.P2, lo+x.P2)
	case OpConcat:
		lowW := x.Args[1].W
		if hi < lowW {
			return b.Extract(x.Args[1], hi, lo)
		}
		if lo >= lowW {
			return b.Extract(x.Args[0], hi-lowW, lo-lowW)
		}
	case OpBvAnd, OpBvOr, OpBvXor:
		// bitwise ops commute with extraction (keeps byte-level terms small)
		return b.bin(x.Op, b.Extract(x.Args[0], hi, lo), b.Extract(x.Args[1], hi, lo))
	case OpBvNot:
		return b.BvNot(b.Extract(x.Args[0], hi, lo))
	case OpIte:
		if x.Args[1].IsConst() || x.Args[2].IsConst() {
			return b.Ite(x.Args[0], b.Extract(x.Args[1], hi, lo), b.Extract(x.Args[2], hi, lo))
		}
	case OpBvLshr:
		// (x >> k)[hi:lo] = x[hi+k:lo+k] when it stays inside x
		if k := x.Args[1]; k.IsConst() && int(k.Val)+hi < x.W {
			return b.Extract(x.Args[0], hi+int(k.Val), lo+int(k.Val))
		}
	case OpBvShl:
		if k := x.Args[1]; k.IsConst() && lo >= int(k.Val) {
			return b.Extract(x.Args[0], hi-int(k.Val), lo-int(k.Val))
		}
	}
	return b.mk(OpExtract, w, 0, hi, lo, "", x)
}

func (b *Builder) Zext(x *Term, to int) *Term {
	if to == x.W {
		return x
	}
	if to < x.W {
		panic("smt: zext to smaller width")
	}
	if x.IsConst() {
		return b.Const(to, x.Val)
	}
	if x.Op == OpZext {
		return b.Zext(x.Args[0], to)
	}
	return b.mk(OpZext, to, 0, to-x.W, 0, "", x)
}

func (b *Builder) Sext(x *Term, to int) *Term {
	if to == x.W {
		return x
	}
	if to < x.W {
		panic("smt: sext to smaller width")
	}
	if x.IsConst() {
		return b.Const(to, uint64(sx(x.Val, x.W)))
	}
	if x.Op == OpZext {
		return b.Zext(x.Args[0], to)
	}
	return b.mk(OpSext, to, 0, to-x.W, 0, "", x)
}

func (b *Builder) Concat(hi, lo *Term) *Term {
	w := hi.W + lo.W
	if w > 64 {
		panic("smt: concat wider than 64")
	}
	if hi.IsConst() && lo.IsConst() {
		return b.Const(w, hi.Val<<uint(lo.W)|lo.Val)
	}
	if hi.IsConst() && hi.Val == 0 {
		return b.Zext(lo, w)
	}
	t := b.mk(OpConcat, w, 0, 0, 0, "", hi, lo)
	if ls, ok := lanesOf(t, 0); ok && len(ls) > 1 {
		if m, ok := b.mergeLanes(ls, w); ok {
			return m
		}
	}
	return t
}

// Resize truncates or extends x to width w.
func (b *Builder) Resize(x *Term, w int, signed bool) *Term {
	switch {
	case w == x.W:
		return x
	case w < x.W:
		return b.Extract(x, w-1, 0)
	case signed:
		return b.Sext(x, w)
	default:
		return b.Zext(x, w)
	}
}

// Eval evaluates t under a model (variables by name; missing = 0).
// Arrays and UFs are not supported (ok=false).
func Eval(t *Term, model map[string]uint64, memo map[*Term]uint64) (v uint64, ok bool) {
	if memo == nil {
		if len(t.Args) == 0 {
			memo = nil
		} else {
			memo = make(map[*Term]uint64)
		}
	}
	if memo != nil {
		if v, ok := memo[t]; ok {
			return v, true
		}
	}
	defer func() {
		if ok && memo != nil {
			memo[t] = v
		}
	}()
	switch t.Op {
	case OpConst:
		return t.Val, true
	case OpVar:
		mv, has := model[t.Name]
		if !has {
			return 0, false
		}
		if t.W > 0 {
			mv &= mask(t.W)
		}
		return mv, true
	case OpUF, OpSelect, OpStore, OpArrVar:
		return 0, false
	}
	var a [3]uint64
	for i, x := range t.Args {
		if x.IsArr {
			return 0, false
		}
		a[i], ok = Eval(x, model, memo)
		if !ok {
			return 0, false
		}
	}
	bv := func(c bool) uint64 {
		if c {
			return 1
		}
		return 0
	}
	switch t.Op {
	case OpNot:
		return 1 - a[0], true
	case OpAnd:
		return a[0] & a[1], true
	case OpOr:
		return a[0] | a[1], true
	case OpEq:
		return bv(a[0] == a[1]), true
	case OpIte:
		if a[0] == 1 {
			return a[1], true
		}
		return a[2], true
	case OpBvNot:
		return ^a[0] & mask(t.W), true
	case OpBvNeg:
		return -a[0] & mask(t.W), true
	case OpBvUlt:
		return bv(a[0] < a[1]), true
	case OpBvUle:
		return bv(a[0] <= a[1]), true
	case OpBvSlt:
		w := t.Args[0].W
		return bv(sx(a[0], w) < sx(a[1], w)), true
	case OpBvSle:
		w := t.Args[0].W
		return bv(sx(a[0], w) <= sx(a[1], w)), true
	case OpConcat:
		return a[0]<<uint(t.Args[1].W) | a[1], true
	case OpExtract:
		return (a[0] >> uint(t.P2)) & mask(t.W), true
	case OpZext:
		return a[0], true
	case OpSext:
		return uint64(sx(a[0], t.Args[0].W)) & mask(t.W), true
	}
	if v, ok := foldBin(t.Op, t.W, a[0], a[1]); ok {
		return v, true
	}
	return 0, false
}

var _ = bits.Len

// LeadingZeros returns a lower bound on the number of leading zero bits of a
// bit-vector term (syntactic, shallow).
func LeadingZeros(t *Term) int {
	return lz(t, 0)
}

func lz(t *Term, depth int) int {
	if t.W == 0 {
		return 0
	}
	switch t.Op {
	case OpConst:
		return t.W - bits.Len64(t.Val)
	case OpZext:
		if depth > 8 {
			return t.P1
		}
		return t.P1 + lz(t.Args[0], depth+1)
	}
	if depth > 8 {
		return 0
	}
	switch t.Op {
	case OpBvAnd:
		a, c := lz(t.Args[0], depth+1), lz(t.Args[1], depth+1)
		if a > c {
			return a
		}
		return c
	case OpBvOr, OpBvXor:
		a, c := lz(t.Args[0], depth+1), lz(t.Args[1], depth+1)
		if a < c {
			return a
		}
		return c
	case OpIte:
		a, c := lz(t.Args[1], depth+1), lz(t.Args[2], depth+1)
		if a < c {
			return a
		}
		return c
	case OpBvLshr:
		if k := t.Args[1]; k.IsConst() {
			n := lz(t.Args[0], depth+1) + int(k.Val)
			if n > t.W {
				n = t.W
			}
			return n
		}
		return lz(t.Args[0], depth+1)
	case OpBvUrem:
		return lz(t.Args[1], depth+1)
	case OpBvUdiv:
		return lz(t.Args[0], depth+1)
	case OpConcat:
		if n := lz(t.Args[0], depth+1); n == t.Args[0].W {
			return n + lz(t.Args[1], depth+1)
		} else {
			return n
		}
	case OpExtract:
		// bits above hi are dropped
		in := lz(t.Args[0], depth+1)
		drop := t.Args[0].W - 1 - t.P1
		if in > drop {
			n := in - drop
			if n > t.W {
				n = t.W
			}
			return n
		}
		return 0
	}
	return 0
}

// ---- byte-lane normalisation -------------------------------------------------
// Values are constantly split into bytes (stores into byte buffers, file images)
// and recombined (binary.LittleEndian, 4-byte loads). lanesOf recognises terms of
// the shape  OR_i ( zext(src_i[hi:lo]) << k_i )  and merges adjacent lanes that
// come from adjacent bits of one source, so split-then-recombine folds back to
// the original term syntactically.

type lane struct {
	src   *Term
	srcLo int
	w     int
	dstLo int
}

func lanesOf(t *Term, depth int) ([]lane, bool) {
	if depth > 12 || t.W == 0 {
		return nil, false
	}
	switch t.Op {
	case OpConst:
		if t.Val == 0 {
			return nil, true
		}
		return nil, false
	case OpExtract:
		return []lane{{t.Args[0], t.P2, t.W, 0}}, true
	case OpZext:
		return lanesOf(t.Args[0], depth+1)
	case OpBvShl:
		k := t.Args[1]
		if !k.IsConst() {
			return nil, false
		}
		ls, ok := lanesOf(t.Args[0], depth+1)
		if !ok {
			return nil, false
		}
		var out []lane
		for _, l := range ls {
			l.dstLo += int(k.Val)
			if l.dstLo >= t.W {
				continue
			}
			if l.dstLo+l.w > t.W {
				l.w = t.W - l.dstLo
			}
			out = append(out, l)
		}
		return out, true
	case OpConcat:
		lo, ok1 := lanesOf(t.Args[1], depth+1)
		hi, ok2 := lanesOf(t.Args[0], depth+1)
		if !ok1 || !ok2 {
			return nil, false
		}
		out := append([]lane(nil), lo...)
		for _, l := range hi {
			l.dstLo += t.Args[1].W
			out = append(out, l)
		}
		return out, true
	case OpBvOr:
		a, ok1 := lanesOf(t.Args[0], depth+1)
		c, ok2 := lanesOf(t.Args[1], depth+1)
		if !ok1 || !ok2 {
			return nil, false
		}
		out := append(append([]lane(nil), a...), c...)
		if len(out) > 16 {
			return nil, false
		}
		// must be disjoint
		for i := range out {
			for j := i + 1; j < len(out); j++ {
				if out[i].dstLo < out[j].dstLo+out[j].w && out[j].dstLo < out[i].dstLo+out[i].w {
					return nil, false
				}
			}
		}
		return out, true
	case OpVar, OpBvAdd, OpBvSub, OpBvMul, OpBvXor, OpBvAnd, OpIte, OpUF, OpBvNot, OpBvNeg, OpSext, OpBvLshr, OpBvAshr, OpSelect, OpBvUdiv, OpBvUrem, OpBvSdiv, OpBvSrem:
		return []lane{{t, 0, t.W, 0}}, true
	}
	return nil, false
}

// mergeLanes tries to rebuild a term of width w from lanes; ok=false if no simplification.
func (b *Builder) mergeLanes(ls []lane, w int) (*Term, bool) {
	if len(ls) == 0 {
		return nil, false
	}
	// sort by dstLo (insertion sort; tiny)
	for i := 1; i < len(ls); i++ {
		for j := i; j > 0 && ls[j].dstLo < ls[j-1].dstLo; j-- {
			ls[j], ls[j-1] = ls[j-1], ls[j]
		}
	}
	merged := []lane{ls[0]}
	for _, l := range ls[1:] {
		m := &merged[len(merged)-1]
		if l.src == m.src && l.dstLo == m.dstLo+m.w && l.srcLo == m.srcLo+m.w {
			m.w += l.w
		} else {
			merged = append(merged, l)
		}
	}
	if len(merged) != 1 || len(ls) == 1 {
		return nil, false
	}
	m := merged[0]
	if m.dstLo != 0 {
		return nil, false
	}
	return b.Zext(b.Extract(m.src, m.srcLo+m.w-1, m.srcLo), w), true
}
