package smt

import "testing"

func TestLanes(t *testing.T) {
	b := NewBuilder()
	x := b.Var("x", 32)
	b0 := b.Extract(x, 7, 0)
	b1 := b.Extract(x, 15, 8)
	b2 := b.Extract(x, 23, 16)
	b3 := b.Extract(x, 31, 24)
	le := b.BvOr(b.BvOr(b.Zext(b0, 32), b.Shl(b.Zext(b1, 32), b.Const(32, 8))), b.BvOr(b.Shl(b.Zext(b2, 32), b.Const(32, 16)), b.Shl(b.Zext(b3, 32), b.Const(32, 24))))
	if le != x {
		t.Fatalf("little-endian recombination not folded: op %v", le.Op)
	}
	c := b.Concat(b3, b.Concat(b2, b.Concat(b1, b0)))
	if c != x {
		t.Fatalf("concat recombination not folded")
	}
	h := b.BvOr(b.Zext(b0, 16), b.Shl(b.Zext(b1, 16), b.Const(16, 8)))
	if h != b.Extract(x, 15, 0) {
		t.Fatalf("16-bit recombination not folded")
	}
	// wrong order must not fold
	w := b.BvOr(b.Zext(b1, 16), b.Shl(b.Zext(b0, 16), b.Const(16, 8)))
	if w == b.Extract(x, 15, 0) {
		t.Fatalf("swapped bytes folded")
	}
}
