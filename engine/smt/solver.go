package smt

import (
	"bufio"
	"fmt"
	"io"
	"os"
	"os/exec"
	"strconv"
	"strings"
	"sync"
	"time"
)

type Result int

const (
	Unknown Result = iota
	Sat
	Unsat
)

func (r Result) String() string {
	switch r {
	case Sat:
		return "sat"
	case Unsat:
		return "unsat"
	}
	return "unknown"
}

type Stats struct {
	Queries   int
	NSat      int
	NUnsat    int
	NUnknown  int
	Errors    int
	SolverSec float64
	Restarts  int
	Disagree  int
	Fallback  int // queries the primary solver answered unknown and another solver decided
}

func (a *Stats) Add(b Stats) {
	a.Queries += b.Queries
	a.NSat += b.NSat
	a.NUnsat += b.NUnsat
	a.NUnknown += b.NUnknown
	a.Errors += b.Errors
	a.SolverSec += b.SolverSec
	a.Restarts += b.Restarts
	a.Disagree += b.Disagree
	a.Fallback += b.Fallback
}

type proc struct {
	name  string
	argv  []string
	cmd   *exec.Cmd
	in    io.WriteCloser
	out   *lineQueue
	dead  bool
	isCvc bool
}

// lineQueue drains the solver's stdout in the background so that a chatty
// solver can never block on a full pipe while we are still writing to it.
type lineQueue struct {
	mu    sync.Mutex
	cond  *sync.Cond
	lines []string
	err   error
}

func newLineQueue(r io.Reader) *lineQueue {
	q := &lineQueue{}
	q.cond = sync.NewCond(&q.mu)
	go func() {
		br := bufio.NewReaderSize(r, 1<<16)
		for {
			line, err := br.ReadString('\n')
			q.mu.Lock()
			if line != "" {
				q.lines = append(q.lines, line)
			}
			if err != nil {
				q.err = err
				q.cond.Broadcast()
				q.mu.Unlock()
				return
			}
			q.cond.Broadcast()
			q.mu.Unlock()
		}
	}()
	return q
}

// ReadString returns the next line (the delimiter argument is ignored: lines only).
func (q *lineQueue) ReadString(_ byte) (string, error) {
	q.mu.Lock()
	defer q.mu.Unlock()
	for len(q.lines) == 0 {
		if q.err != nil {
			return "", q.err
		}
		q.cond.Wait()
	}
	l := q.lines[0]
	q.lines = q.lines[1:]
	return l, nil
}

// Solver drives one persistent SMT solver process (optionally a second one that
// must agree on every check-sat verdict).
type Solver struct {
	p         *proc
	second    *proc
	level     int
	defined   map[int]int // term ID -> level at which it was defined/declared
	ufs       map[string]int
	TimeoutMs int
	Stats     Stats
	LastErr   string
	broken    bool // a solver process died: assertion stacks are gone until the next Reset
	trace     io.Writer
	buf       strings.Builder
}

func solverArgv(kind string, timeoutMs int) (string, []string, bool) {
	switch kind {
	case "z3", "":
		return "z3", []string{"z3", "-in", "-smt2"}, false
	case "z3-new":
		return "z3-new", []string{"z3-new", "-in", "-smt2"}, false
	case "cvc5":
		return "cvc5", []string{"cvc5", "--incremental", "--lang=smt2", "--produce-models", fmt.Sprintf("--tlimit-per=%d", timeoutMs)}, true
	}
	return kind, strings.Fields(kind), false
}

func startProc(kind string, timeoutMs int) (*proc, error) {
	name, argv, isCvc := solverArgv(kind, timeoutMs)
	cmd := exec.Command(argv[0], argv[1:]...)
	in, err := cmd.StdinPipe()
	if err != nil {
		return nil, err
	}
	out, err := cmd.StdoutPipe()
	if err != nil {
		return nil, err
	}
	cmd.Stderr = cmd.Stdout
	if err := cmd.Start(); err != nil {
		return nil, err
	}
	return &proc{name: name, argv: argv, cmd: cmd, in: in, out: newLineQueue(out), isCvc: isCvc}, nil
}

// NewSolver starts solver `kind` ("z3", "z3-new", "cvc5"); second may be "" or another kind.
func NewSolver(kind, second string, timeoutMs int) (*Solver, error) {
	s := &Solver{TimeoutMs: timeoutMs, defined: map[int]int{}, ufs: map[string]int{}}
	p, err := startProc(kind, timeoutMs)
	if err != nil {
		return nil, err
	}
	s.p = p
	if second != "" {
		p2, err := startProc(second, timeoutMs)
		if err != nil {
			return nil, err
		}
		s.second = p2
	}
	if tf := os.Getenv("GOSYM_SMT_TRACE"); tf != "" {
		f, err := os.OpenFile(tf, os.O_CREATE|os.O_WRONLY|os.O_APPEND, 0644)
		if err == nil {
			s.trace = f
		}
	}
	s.Reset()
	return s, nil
}

func (s *Solver) Close() {
	for _, p := range []*proc{s.p, s.second} {
		if p != nil && p.cmd != nil {
			p.in.Close()
			p.cmd.Process.Kill()
			p.cmd.Wait()
		}
	}
}

func (s *Solver) send(str string) {
	if s.trace != nil {
		io.WriteString(s.trace, str)
	}
	io.WriteString(s.p.in, str)
	if s.second != nil {
		io.WriteString(s.second.in, str)
	}
}

func (s *Solver) preamble(p *proc) string {
	if p.isCvc {
		return "(set-logic ALL)\n(set-option :produce-models true)\n"
	}
	return fmt.Sprintf("(set-option :timeout %d)\n(set-option :produce-models true)\n", s.TimeoutMs)
}

// Reset clears all assertions, declarations and definitions.
func (s *Solver) Reset() {
	if s.trace != nil {
		io.WriteString(s.trace, "(reset)\n")
	}
	for _, p := range []*proc{s.p, s.second} {
		if p == nil {
			continue
		}
		io.WriteString(p.in, "(reset)\n"+s.preamble(p))
	}
	s.level = 0
	s.defined = map[int]int{}
	s.ufs = map[string]int{}
	s.broken = false
}

func sortStr(t *Term) string {
	if t.IsArr {
		return fmt.Sprintf("(Array (_ BitVec %d) (_ BitVec %d))", t.P1, t.W)
	}
	if t.W == 0 {
		return "Bool"
	}
	return "(_ BitVec " + strconv.Itoa(t.W) + ")"
}

func wSort(w int) string {
	if w == 0 {
		return "Bool"
	}
	return "(_ BitVec " + strconv.Itoa(w) + ")"
}

func constStr(t *Term) string {
	if t.W == 0 {
		if t.Val == 1 {
			return "true"
		}
		return "false"
	}
	if t.W%4 == 0 {
		return fmt.Sprintf("#x%0*x", t.W/4, t.Val)
	}
	return fmt.Sprintf("#b%0*b", t.W, t.Val)
}

func quoteName(n string) string { return "|" + n + "|" }

func (s *Solver) ref(t *Term) string {
	switch t.Op {
	case OpConst:
		return constStr(t)
	case OpVar, OpArrVar:
		return quoteName(t.Name)
	}
	return "t" + strconv.Itoa(t.ID)
}

// define makes sure t (and everything below) is declared/defined in the solver.
func (s *Solver) define(t *Term) {
	if t.Op == OpConst {
		return
	}
	if _, ok := s.defined[t.ID]; ok {
		return
	}
	// iterative post-order to avoid deep recursion on long chains
	type fr struct {
		t *Term
		i int
	}
	stack := []fr{{t, 0}}
	for len(stack) > 0 {
		top := &stack[len(stack)-1]
		if top.i < len(top.t.Args) {
			c := top.t.Args[top.i]
			top.i++
			if c.Op != OpConst {
				if _, ok := s.defined[c.ID]; !ok {
					stack = append(stack, fr{c, 0})
				}
			}
			continue
		}
		x := top.t
		stack = stack[:len(stack)-1]
		if _, ok := s.defined[x.ID]; ok {
			continue
		}
		s.emitDef(x)
		s.defined[x.ID] = s.level
	}
}

func (s *Solver) emitDef(x *Term) {
	b := &s.buf
	b.Reset()
	switch x.Op {
	case OpVar, OpArrVar:
		fmt.Fprintf(b, "(declare-const %s %s)\n", quoteName(x.Name), sortStr(x))
		s.send(b.String())
		return
	case OpUF:
		if _, ok := s.ufs[x.Name]; !ok {
			fmt.Fprintf(b, "(declare-fun %s (", quoteName(x.Name))
			for _, a := range x.Args {
				b.WriteString(sortStr(a))
				b.WriteByte(' ')
			}
			fmt.Fprintf(b, ") %s)\n", wSort(x.W))
			s.ufs[x.Name] = s.level
		}
	}
	fmt.Fprintf(b, "(define-fun t%d () %s ", x.ID, sortStr(x))
	switch x.Op {
	case OpExtract:
		fmt.Fprintf(b, "((_ extract %d %d) %s)", x.P1, x.P2, s.ref(x.Args[0]))
	case OpZext:
		fmt.Fprintf(b, "((_ zero_extend %d) %s)", x.P1, s.ref(x.Args[0]))
	case OpSext:
		fmt.Fprintf(b, "((_ sign_extend %d) %s)", x.P1, s.ref(x.Args[0]))
	case OpUF:
		if len(x.Args) == 0 {
			b.WriteString(quoteName(x.Name))
		} else {
			b.WriteByte('(')
			b.WriteString(quoteName(x.Name))
			for _, a := range x.Args {
				b.WriteByte(' ')
				b.WriteString(s.ref(a))
			}
			b.WriteByte(')')
		}
	default:
		b.WriteByte('(')
		b.WriteString(opNames[x.Op])
		for _, a := range x.Args {
			b.WriteByte(' ')
			b.WriteString(s.ref(a))
		}
		b.WriteByte(')')
	}
	b.WriteString(")\n")
	s.send(b.String())
}

func (s *Solver) Assert(t *Term) {
	if t.IsTrue() {
		return
	}
	s.define(t)
	s.send("(assert " + s.ref(t) + ")\n")
}

func (s *Solver) Push() {
	s.level++
	s.send("(push 1)\n")
}

func (s *Solver) Pop() {
	if s.level == 0 {
		panic("smt: pop at level 0")
	}
	s.level--
	s.send("(pop 1)\n")
	for id, lv := range s.defined {
		if lv > s.level {
			delete(s.defined, id)
		}
	}
	for n, lv := range s.ufs {
		if lv > s.level {
			delete(s.ufs, n)
		}
	}
}

func (s *Solver) readVerdict(p *proc) Result {
	r := Unknown
	bad := false
	for {
		line, err := p.out.ReadString('\n')
		if err != nil {
			// the solver process died (crash, out of memory): this query is unknown; a fresh
			// process takes its place and every further query is unknown until the caller
			// rebuilds the assertion stack from scratch (Reset / CheckOneShot)
			p.dead = true
			s.LastErr = p.name + ": solver process ended: " + err.Error()
			s.Stats.Errors++
			s.revive(p)
			s.broken = true
			return Unknown
		}
		line = strings.TrimSpace(line)
		switch {
		case strings.Contains(line, "@done"):
			if bad {
				return Unknown
			}
			return r
		case line == "sat":
			r = Sat
		case line == "unsat":
			r = Unsat
		case line == "unknown" || line == "timeout":
			r = Unknown
		case strings.HasPrefix(line, "(error"):
			s.LastErr = p.name + ": " + line
			s.Stats.Errors++
			bad = true
		case line == "":
		default:
			s.LastErr = p.name + ": unexpected output: " + line
			bad = true
		}
	}
}

// revive replaces a dead solver process by a fresh one of the same kind.
func (s *Solver) revive(p *proc) {
	if p.cmd != nil && p.cmd.Process != nil {
		p.cmd.Process.Kill()
		p.cmd.Wait()
	}
	np, err := startProc(p.name, s.TimeoutMs)
	if err != nil {
		return
	}
	*p = *np
	io.WriteString(p.in, s.preamble(p))
	s.Stats.Restarts++
}

// Check runs (check-sat) on the current assertion stack.
func (s *Solver) Check() Result {
	if s.broken {
		s.Stats.Queries++
		s.Stats.NUnknown++
		return Unknown
	}
	t0 := time.Now()
	s.send("(check-sat)\n(echo \"@done\")\n")
	r := s.readVerdict(s.p)
	if s.second != nil {
		r2 := s.readVerdict(s.second)
		if r2 != r {
			if r != Unknown && r2 != Unknown {
				s.Stats.Disagree++
				s.LastErr = fmt.Sprintf("solver disagreement: %s=%s %s=%s", s.p.name, r, s.second.name, r2)
				r = Unknown
			} else if r == Unknown {
				// primary could not decide: accept the second solver's verdict only
				// for unsat/sat when it is definite (still counted as cross-checked=no)
				r = r2
			}
		}
	}
	s.Stats.Queries++
	s.Stats.SolverSec += time.Since(t0).Seconds()
	switch r {
	case Sat:
		s.Stats.NSat++
	case Unsat:
		s.Stats.NUnsat++
	default:
		s.Stats.NUnknown++
	}
	return r
}

// SetTimeout changes the per-query timeout of the primary z3-style solver.
func (s *Solver) SetTimeout(ms int) {
	for _, p := range []*proc{s.p, s.second} {
		if p != nil && !p.isCvc {
			io.WriteString(p.in, fmt.Sprintf("(set-option :timeout %d)\n", ms))
		}
	}
	if s.trace != nil {
		io.WriteString(s.trace, fmt.Sprintf("(set-option :timeout %d)\n", ms))
	}
}

// CheckOneShot decides pc ∧ extra from a fresh solver state (no push/pop), which
// lets z3 use its preprocessing tactics instead of the incremental core. The
// solver is left holding exactly these assertions at level 0; the caller must
// Reset and re-assert its path condition before further incremental use.
func (s *Solver) CheckOneShot(pc []*Term, extra *Term, vars []*Term) (Result, map[string]uint64) {
	s.Reset()
	for _, t := range pc {
		s.Assert(t)
	}
	if extra != nil {
		s.Assert(extra)
	}
	r := s.Check()
	var m map[string]uint64
	if r == Sat {
		m = s.Model(vars)
	}
	return r, m
}

// FallbackKinds are the solvers tried, each from a fresh process and a fresh state, when the
// primary solver answers unknown (different engines decide different multiplication-heavy
// queries). A sat verdict comes with that solver's model; every counterexample is replayed
// natively before it is reported, an unsat verdict is trusted like the primary's.
var FallbackKinds = []string{"z3-new", "cvc5"}

// CheckFallback decides pc ∧ extra with the fallback solvers, one after another.
func (s *Solver) CheckFallback(pc []*Term, extra *Term, vars []*Term) (Result, map[string]uint64) {
	for _, kind := range FallbackKinds {
		if s.p != nil && s.p.name == kind {
			continue
		}
		f, err := NewSolver(kind, "", s.TimeoutMs)
		if err != nil {
			continue
		}
		t0 := time.Now()
		r, m := f.CheckOneShot(pc, extra, vars)
		f.Close()
		s.Stats.SolverSec += time.Since(t0).Seconds()
		if r != Unknown {
			s.Stats.Fallback++
			return r, m
		}
	}
	return Unknown, nil
}

// CheckWith checks satisfiability of the current stack plus extra, leaving the stack unchanged.
func (s *Solver) CheckWith(extra *Term) Result {
	if extra.IsFalse() {
		return Unsat
	}
	s.Push()
	s.Assert(extra)
	r := s.Check()
	s.Pop()
	return r
}

// Model fetches values of the given bit-vector/bool variables after a Sat verdict
// (from the primary solver). Must be called before the next Pop.
func (s *Solver) Model(vars []*Term) map[string]uint64 {
	m := make(map[string]uint64, len(vars))
	var names []string
	for _, v := range vars {
		if v.Op != OpVar {
			continue
		}
		if _, ok := s.defined[v.ID]; !ok {
			m[v.Name] = 0 // never sent to the solver: unconstrained
			continue
		}
		names = append(names, v.Name)
	}
	for len(names) > 0 {
		n := len(names)
		if n > 200 {
			n = 200
		}
		s.getValues(names[:n], m)
		names = names[n:]
	}
	return m
}

func (s *Solver) getValues(names []string, m map[string]uint64) {
	var b strings.Builder
	b.WriteString("(get-value (")
	for _, n := range names {
		b.WriteString(quoteName(n))
		b.WriteByte(' ')
	}
	b.WriteString("))\n")
	if s.trace != nil {
		io.WriteString(s.trace, b.String())
	}
	io.WriteString(s.p.in, b.String())
	// read balanced s-expression
	depth := 0
	started := false
	var sb strings.Builder
	for {
		line, err := s.p.out.ReadString('\n')
		if err != nil {
			s.LastErr = "solver died in get-value"
			s.Stats.Errors++
			return
		}
		if !started && strings.HasPrefix(strings.TrimSpace(line), "(error") {
			s.LastErr = line
			s.Stats.Errors++
			return
		}
		inBar := false
		for _, c := range line {
			switch {
			case c == '|':
				inBar = !inBar
			case inBar:
			case c == '(':
				depth++
				started = true
			case c == ')':
				depth--
			}
		}
		sb.WriteString(line)
		if started && depth <= 0 {
			break
		}
	}
	parseValues(sb.String(), m)
}

func parseValues(txt string, m map[string]uint64) {
	// tokens: ( ) |quoted| atom
	var toks []string
	i, n := 0, len(txt)
	for i < n {
		c := txt[i]
		switch {
		case c == ' ' || c == '\n' || c == '\t' || c == '\r':
			i++
		case c == '(' || c == ')':
			toks = append(toks, string(c))
			i++
		case c == '|':
			j := strings.IndexByte(txt[i+1:], '|')
			if j < 0 {
				return
			}
			toks = append(toks, txt[i+1:i+1+j])
			i += j + 2
		default:
			j := i
			for j < n && !strings.ContainsRune(" \n\t\r()", rune(txt[j])) {
				j++
			}
			toks = append(toks, txt[i:j])
			i = j
		}
	}
	// ( (name val) ... )
	for k := 1; k+2 < len(toks); {
		if toks[k] != "(" {
			k++
			continue
		}
		name := toks[k+1]
		k += 2
		var tok string
		if toks[k] == "(" { // (_ bvN w)
			if k+2 < len(toks) && toks[k+1] == "_" {
				tok = "(_ " + toks[k+2]
			}
			for k < len(toks) && toks[k] != ")" {
				k++
			}
			k++
		} else {
			tok = toks[k]
			k++
		}
		for k < len(toks) && toks[k] != ")" {
			k++
		}
		k++
		var v uint64
		switch {
		case tok == "true":
			v = 1
		case tok == "false":
			v = 0
		case strings.HasPrefix(tok, "#x"):
			v, _ = strconv.ParseUint(tok[2:], 16, 64)
		case strings.HasPrefix(tok, "#b"):
			v, _ = strconv.ParseUint(tok[2:], 2, 64)
		case strings.HasPrefix(tok, "(_ bv"):
			v, _ = strconv.ParseUint(tok[5:], 10, 64)
		default:
			continue
		}
		m[name] = v
	}
}

// DumpQuery renders pc ∧ extra as a standalone SMT-LIB2 script (debugging, solver diffing).
func DumpQuery(pc []*Term, extra *Term) string {
	var sb strings.Builder
	defined := map[int]bool{}
	ufs := map[string]bool{}
	var def func(t *Term)
	ref := func(t *Term) string {
		switch t.Op {
		case OpConst:
			return constStr(t)
		case OpVar, OpArrVar:
			return quoteName(t.Name)
		}
		return "t" + strconv.Itoa(t.ID)
	}
	def = func(t *Term) {
		if t.Op == OpConst || defined[t.ID] {
			return
		}
		for _, a := range t.Args {
			def(a)
		}
		defined[t.ID] = true
		switch t.Op {
		case OpVar, OpArrVar:
			fmt.Fprintf(&sb, "(declare-const %s %s)\n", quoteName(t.Name), sortStr(t))
			return
		case OpUF:
			if !ufs[t.Name] {
				ufs[t.Name] = true
				fmt.Fprintf(&sb, "(declare-fun %s (", quoteName(t.Name))
				for _, a := range t.Args {
					sb.WriteString(sortStr(a) + " ")
				}
				fmt.Fprintf(&sb, ") %s)\n", wSort(t.W))
			}
		}
		fmt.Fprintf(&sb, "(define-fun t%d () %s ", t.ID, sortStr(t))
		switch t.Op {
		case OpExtract:
			fmt.Fprintf(&sb, "((_ extract %d %d) %s)", t.P1, t.P2, ref(t.Args[0]))
		case OpZext:
			fmt.Fprintf(&sb, "((_ zero_extend %d) %s)", t.P1, ref(t.Args[0]))
		case OpSext:
			fmt.Fprintf(&sb, "((_ sign_extend %d) %s)", t.P1, ref(t.Args[0]))
		case OpUF:
			if len(t.Args) == 0 {
				sb.WriteString(quoteName(t.Name))
			} else {
				sb.WriteString("(" + quoteName(t.Name))
				for _, a := range t.Args {
					sb.WriteString(" " + ref(a))
				}
				sb.WriteString(")")
			}
		default:
			sb.WriteString("(" + opNames[t.Op])
			for _, a := range t.Args {
				sb.WriteString(" " + ref(a))
			}
			sb.WriteString(")")
		}
		sb.WriteString(")\n")
	}
	all := append([]*Term(nil), pc...)
	if extra != nil {
		all = append(all, extra)
	}
	for _, t := range all {
		def(t)
		fmt.Fprintf(&sb, "(assert %s)\n", ref(t))
	}
	sb.WriteString("(check-sat)\n")
	return sb.String()
}
