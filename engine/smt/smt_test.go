package smt

import "testing"

func TestBasic(t *testing.T) {
	for _, k := range []string{"z3", "z3-new", "cvc5"} {
		s, err := NewSolver(k, "", 10000)
		if err != nil {
			t.Fatal(err)
		}
		b := NewBuilder()
		x := b.Var("x#0", 32)
		y := b.Var("y", 32)
		s.Assert(b.Eq(b.Add(x, y), b.Const(32, 10)))
		s.Assert(b.Ult(x, b.Const(32, 3)))
		if r := s.Check(); r != Sat {
			t.Fatal(k, r, s.LastErr)
		}
		m := s.Model(b.Vars)
		if (m["x#0"]+m["y"])&0xffffffff != 10 {
			t.Fatal(k, m)
		}
		if r := s.CheckWith(b.Eq(y, b.Const(32, 3))); r != Unsat {
			t.Fatal(k, r)
		}
		if r := s.CheckWith(b.Eq(y, b.Const(32, 8))); r != Sat {
			t.Fatal(k, r)
		}
		s.Reset()
		s.Assert(b.Eq(x, b.Const(32, 1)))
		if r := s.Check(); r != Sat {
			t.Fatal(k, r, s.LastErr)
		}
		s.Close()
	}
}
