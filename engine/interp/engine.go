package interp

// Loading of the program under test, per-path interpreter construction and the
// replay-based path exploration driver.

import (
	"fmt"
	"go/token"
	"go/types"
	"os"
	"runtime/debug"
	"sort"
	"strings"
	"sync"
	"time"

	"golang.org/x/tools/go/packages"
	"golang.org/x/tools/go/ssa"
	"golang.org/x/tools/go/ssa/ssautil"

	"gosym/smt"
)

type externalFn func(fr *frame, args []value) value

const RepoModule = "github.com/douban/gobeansdb"
const VrtPkg = RepoModule + "/zzvrt"

// Env is the loaded program: shared and read-only during exploration.
type Env struct {
	Prog      *ssa.Program
	Pkgs      []*ssa.Package
	Fset      *token.FileSet
	exts      map[*ssa.Function]externalFn
	shared    map[*ssa.Global]*value // globals of non-repo packages, initialised once
	repoGlobs []*ssa.Global
	sizes     types.Sizes
	rtErrStr  types.Type
	LoadSecs  float64
	initAllow map[string]bool
	byName    map[string]*ssa.Function
	CKernels  *cKernels
	Tier      int
}

type crashPanic struct{ at string }

// pure packages whose init functions are interpreted (once, shared)
var stdInitAllow = []string{
	"internal/oserror", "io", "io/fs", "unicode", "unicode/utf8", "strconv", "bytes", "strings", "sort",
	"bufio", "encoding/binary", "math", "math/bits", "container/heap", "internal/bytealg", "hash", "hash/crc32", "unicode/utf16",
	"github.com/spaolacci/murmur3", "slices", "cmp", "internal/itoa", "internal/stringslite", "path", "path/filepath",
	"encoding/hex", "internal/byteorder",
}

// Load builds the SSA program for the given package patterns of /repo with the
// harness overlay applied.
func Load(repoDir string, overlay map[string][]byte, patterns []string, tags string) (*Env, error) {
	t0 := time.Now()
	cfg := &packages.Config{
		Mode: packages.NeedName | packages.NeedFiles | packages.NeedCompiledGoFiles | packages.NeedImports |
			packages.NeedDeps | packages.NeedTypes | packages.NeedSyntax | packages.NeedTypesInfo | packages.NeedTypesSizes | packages.NeedModule,
		Dir:        repoDir,
		Overlay:    overlay,
		BuildFlags: []string{"-tags=" + tags},
		Env:        append(os.Environ(), "GOFLAGS=-mod=mod", "GOPROXY=off", "GOSUMDB=off", "GOTOOLCHAIN=local", "CGO_ENABLED=1"),
	}
	pkgs, err := packages.Load(cfg, patterns...)
	if err != nil {
		return nil, err
	}
	var errs []string
	packages.Visit(pkgs, nil, func(p *packages.Package) {
		for _, e := range p.Errors {
			errs = append(errs, e.Error())
		}
	})
	if len(errs) > 0 {
		return nil, fmt.Errorf("package load errors:\n%s", strings.Join(errs, "\n"))
	}
	prog, spkgs := ssautil.AllPackages(pkgs, ssa.InstantiateGenerics|ssa.SanityCheckFunctions&0)
	prog.Build()
	env := &Env{Prog: prog, Fset: prog.Fset, exts: map[*ssa.Function]externalFn{}, shared: map[*ssa.Global]*value{},
		sizes: &types.StdSizes{WordSize: 8, MaxAlign: 8}, initAllow: map[string]bool{}, byName: map[string]*ssa.Function{}}
	for _, p := range spkgs {
		if p != nil {
			env.Pkgs = append(env.Pkgs, p)
		}
	}
	for _, a := range stdInitAllow {
		env.initAllow[a] = true
	}
	rt := prog.ImportedPackage("runtime")
	if rt == nil {
		return nil, fmt.Errorf("program does not include runtime")
	}
	env.rtErrStr = rt.Type("errorString").Object().Type()

	// globals
	for _, pkg := range prog.AllPackages() {
		repo := isRepoPkg(pkg.Pkg.Path())
		for _, m := range pkg.Members {
			if g, ok := m.(*ssa.Global); ok {
				if repo {
					env.repoGlobs = append(env.repoGlobs, g)
				} else {
					cell := zero(mustDeref(g.Type()))
					env.shared[g] = &cell
				}
			}
		}
	}
	sort.Slice(env.repoGlobs, func(i, j int) bool { return env.repoGlobs[i].String() < env.repoGlobs[j].String() })

	// externals by name
	for fn := range ssautil.AllFunctions(prog) {
		name := fn.String()
		if fn.Parent() == nil {
			env.byName[name] = fn
		}
		if ext := lookupExternal(fn, name, env); ext != nil {
			env.exts[fn] = ext
		}
	}
	// C kernels from the cgo preambles of the current sources
	if tmp, terr := os.MkdirTemp("", "gosym-ck"); terr == nil {
		ck, cerr := loadCKernels(tmp, []string{repoDir + "/store/crc32.go", repoDir + "/store/leaf.go"})
		if cerr == nil {
			if _, serr := os.Stat(repoDir + "/quicklz/quicklz.c"); serr == nil {
				cerr = ck.loadCFile(tmp, repoDir+"/quicklz/quicklz.c", repoDir+"/quicklz")
			}
		}
		os.RemoveAll(tmp)
		if cerr != nil {
			return nil, cerr
		}
		env.CKernels = ck
	}
	// boot: run shared package initialisers once
	if err := env.boot(); err != nil {
		return nil, err
	}
	env.LoadSecs = time.Since(t0).Seconds()
	return env, nil
}

func isRepoPkg(path string) bool {
	return path == RepoModule || strings.HasPrefix(path, RepoModule+"/")
}

func (e *Env) external(fn *ssa.Function) externalFn { return e.exts[fn] }

// boot interprets init() of the allow-listed non-repo packages with a throw-away interpreter.
func (e *Env) boot() (err error) {
	i := e.newInterp(nil, nil)
	defer func() {
		if r := recover(); r != nil {
			err = fmt.Errorf("boot: %v", panicString2(r))
		}
	}()
	var names []string
	for n := range e.initAllow {
		names = append(names, n)
	}
	sort.Strings(names)
	for _, n := range names {
		pkg := e.Prog.ImportedPackage(n)
		if pkg == nil {
			continue
		}
		if f := pkg.Func("init"); f != nil {
			func() {
				defer func() {
					if r := recover(); r != nil {
						panic(fmt.Sprintf("init of %s: %s", n, panicString2(r)))
					}
				}()
				call(i, nil, token.NoPos, f, nil)
			}()
		}
	}
	return nil
}

func panicString2(r interface{}) string {
	if a, ok := r.(engineAbort); ok {
		return a.reason
	}
	return panicString(r)
}

func (e *Env) newInterp(s *smt.Solver, prefix []Decision) *interpreter {
	i := &interpreter{
		prog:               e.Prog,
		globals:            make(map[*ssa.Global]*value, len(e.repoGlobs)),
		sizes:              e.sizes,
		env:                e,
		runtimeErrorString: e.rtErrStr,
		maxSteps:           400_000_000,
		funcs:              map[*ssa.Function]struct{}{},
		summaries:          map[string]string{},
		natives:            map[string]value{},
	}
	for _, g := range e.repoGlobs {
		cell := zero(mustDeref(g.Type()))
		i.globals[g] = &cell
	}
	if s != nil {
		i.ctx = newPathCtx(s, prefix)
		i.ctx.b.Aux = i.ctx
	}
	i.sched = newScheduler(i)
	i.fs = newModelFS()
	return i
}

func (i *interpreter) global(g *ssa.Global) (*value, bool) {
	if r, ok := i.globals[g]; ok {
		return r, true
	}
	r, ok := i.env.shared[g]
	return r, ok
}

func (i *interpreter) checkAlloc(n int64) {
	if n < 0 {
		panic(rtError("makeslice: cap out of range"))
	}
	limit := int64(64 << 20)
	if i.ctx != nil && i.ctx.allocLimit > 0 {
		if n > i.ctx.allocLimit {
			panic(engineAbort{psViolation, fmt.Sprintf("allocation of %d bytes exceeds the harness limit %d", n, i.ctx.allocLimit)})
		}
		return
	}
	if n > limit {
		panic(engineAbort{psInconclusive, fmt.Sprintf("allocation of %d elements", n)})
	}
}

// ------------------------------------------------------------ path running

// PathResult is the outcome of one explored path.
type PathResult struct {
	Status    pathStatus
	Reason    string
	Taken     []Decision
	Forks     [][]Decision
	Viol      *violation
	KnownHits []violation
	Inconcl   []string
	Reached   map[string]bool
	Asserted  map[string]bool
	Steps     int64
	Branches  int64
	Funcs     map[*ssa.Function]struct{}
	Observes  []observed
	Model     map[string]uint64
	Tags      []string
	Choices   []int
}

// RunPath executes harness fn along the decision prefix.
func (e *Env) RunPath(s *smt.Solver, fn *ssa.Function, prefix []Decision, replayModel map[string]uint64, wantModel bool, maxSteps int64) (res PathResult) {
	i := e.newInterp(s, prefix)
	if maxSteps > 0 {
		i.maxSteps = maxSteps
	}
	if ms := os.Getenv("GOSYM_MAXSTEPS"); ms != "" {
		fmt.Sscanf(ms, "%d", &i.maxSteps)
	}
	ctx := i.ctx
	ctx.replayModel = replayModel
	defer func() {
		r := recover()
		i.sched.killAll()
		res.Taken = ctx.taken
		res.Forks = ctx.forks
		res.Inconcl = ctx.inconcl
		res.Reached = ctx.reached
		res.Asserted = ctx.asserted
		res.Steps = i.steps
		res.Branches = i.branches
		res.Funcs = i.funcs
		res.KnownHits = ctx.knownHits
		res.Observes = ctx.observes
		res.Tags = ctx.tags
		if debugTrace && r != nil {
			fmt.Fprintf(os.Stderr, "recent calls: %s\n", strings.Join(i.recent, "\n  "))
		}
		for _, d := range ctx.taken {
			if d.Kind == 'n' && strings.HasPrefix(d.Tag, "choice:") {
				res.Choices = append(res.Choices, d.Alt)
			}
		}
		if r != nil && os.Getenv("GOSYM_DEBUG") != "" {
			if _, isAbort := r.(engineAbort); !isAbort {
				fmt.Fprintf(os.Stderr, "panic: %v\n%s\n", r, debug.Stack())
			}
		}
		if r == nil {
			res.Status = psOK
			if wantModel {
				res.Model = ctx.pcModel()
			}
			return
		}
		switch p := r.(type) {
		case engineAbort:
			res.Status, res.Reason = p.status, p.reason
			if p.status == psViolation && ctx.viol == nil && ctx.knownMemID != "" && strings.Contains(p.reason, ctx.knownMemPat) {
				// engine-detected memory-safety violation classified as a recorded finding
				res.KnownHits = append(res.KnownHits, violation{Label: "engine:" + firstWords(p.reason), Detail: p.reason, KnownID: ctx.knownMemID, Model: ctx.pcModel(), Prefix: append([]Decision(nil), ctx.taken...), Observes: ctx.observes})
				res.Status, res.Reason = psCut, "known finding "+ctx.knownMemID+": "+p.reason
				return
			}
			if p.status == psViolation {
				res.Viol = ctx.viol
				if res.Viol == nil {
					res.Viol = &violation{Label: "engine:" + firstWords(p.reason), Detail: p.reason, Model: ctx.pcModel(), Prefix: append([]Decision(nil), ctx.taken...)}
				}
				res.Viol.Detail = p.reason
				res.Viol.Observes = ctx.observes
			}
		case targetPanic:
			res.Status = psViolation
			res.Reason = "uncaught panic: " + toString(p.v)
			res.Viol = &violation{Label: "uncaught-panic", Detail: res.Reason, Model: ctx.pcModel(), Prefix: append([]Decision(nil), ctx.taken...), Observes: ctx.observes}
		case crashPanic:
			res.Status, res.Reason = psEngineError, "crash outside a crashable region"
		default:
			if re, ok := r.(interface{ RuntimeError() }); ok {
				_ = re
				res.Status = psViolation
				res.Reason = "uncaught runtime panic: " + panicString(r)
				res.Viol = &violation{Label: "uncaught-panic", Detail: res.Reason, Model: ctx.pcModel(), Prefix: append([]Decision(nil), ctx.taken...), Observes: ctx.observes}
			} else {
				res.Status, res.Reason = psEngineError, fmt.Sprintf("interpreter panic: %v", panicString(r))
				if os.Getenv("GOSYM_DEBUG") != "" {
					panic(r)
				}
			}
		}
	}()
	// initialise repo packages (fresh per path), then run the harness
	if init := fn.Pkg.Func("init"); init != nil {
		call(i, nil, token.NoPos, init, nil)
	}
	call(i, nil, token.NoPos, fn, nil)
	return
}

func firstWords(s string) string {
	f := strings.Fields(s)
	if len(f) > 4 {
		f = f[:4]
	}
	return strings.Join(f, "-")
}

// ------------------------------------------------------------ exploration

type ExploreOpts struct {
	Workers      int
	Solver       string
	Second       string
	TimeoutMs    int
	MaxPaths     int
	MaxSeconds   float64
	MaxSteps     int64
	Seed         int64
	StopOnViol   bool
	SampleModels int // number of OK paths for which a witness model is kept
	Verbose      bool
}

type Witness struct {
	Decisions []Decision        `json:"decisions"`
	Model     map[string]uint64 `json:"model"`
	Observes  []observed        `json:"observes"`
	Choices   []int             `json:"choices"`
	Tags      []string          `json:"tags,omitempty"`
	Steps     int64             `json:"steps"`
}

type ExploreResult struct {
	Harness     string
	Paths       int
	OK          int
	Cut         int
	FailStop    int
	Inconcl     int
	EngineErr   int
	Violations  []*violation
	KnownHits   []violation
	InconclWhy  map[string]int
	Reached     map[string]bool
	Asserted    map[string]bool
	Steps       int64
	Branches    int64
	Funcs       map[string]bool
	Stats       smt.Stats
	Witnesses   []Witness
	Exhaustive  bool
	WallSecs    float64
	StoppedWhy  string
	MaxDepth    int
	ForkTags    map[string]int // where paths fork: decision tag -> number of alternatives enqueued
}

// Explore runs the harness over all paths (DFS over decision vectors).
func (e *Env) Explore(fn *ssa.Function, o ExploreOpts) *ExploreResult {
	t0 := time.Now()
	res := &ExploreResult{Harness: fn.Name(), InconclWhy: map[string]int{}, Reached: map[string]bool{}, Asserted: map[string]bool{}, Funcs: map[string]bool{}, ForkTags: map[string]int{}}
	if o.Workers <= 0 {
		o.Workers = 1
	}
	if o.TimeoutMs <= 0 {
		o.TimeoutMs = 10000
	}
	var mu sync.Mutex
	cond := sync.NewCond(&mu)
	stack := [][]Decision{nil}
	active := 0
	stop := false
	funcs := map[*ssa.Function]struct{}{}

	worker := func(id int) {
		s, err := smt.NewSolver(o.Solver, o.Second, o.TimeoutMs)
		if err != nil {
			mu.Lock()
			res.EngineErr++
			res.InconclWhy["cannot start solver: "+err.Error()]++
			stop = true
			cond.Broadcast()
			mu.Unlock()
			return
		}
		defer func() {
			mu.Lock()
			res.Stats.Add(s.Stats)
			mu.Unlock()
			s.Close()
		}()
		for {
			mu.Lock()
			for len(stack) == 0 && active > 0 && !stop {
				cond.Wait()
			}
			if stop || len(stack) == 0 {
				mu.Unlock()
				cond.Broadcast()
				return
			}
			prefix := stack[len(stack)-1]
			stack = stack[:len(stack)-1]
			active++
			wantModel := len(res.Witnesses) < o.SampleModels
			mu.Unlock()

			pr := e.RunPath(s, fn, prefix, nil, wantModel, o.MaxSteps)

			mu.Lock()
			active--
			res.Paths++
			res.Steps += pr.Steps
			res.Branches += pr.Branches
			if len(pr.Taken) > res.MaxDepth {
				res.MaxDepth = len(pr.Taken)
			}
			for f := range pr.Funcs {
				funcs[f] = struct{}{}
			}
			for k := range pr.Reached {
				res.Reached[k] = true
			}
			for k := range pr.Asserted {
				res.Asserted[k] = true
			}
			for _, w := range pr.Inconcl {
				res.InconclWhy[w]++
			}
			res.KnownHits = append(res.KnownHits, pr.KnownHits...)
			// alternatives discovered on this path (push in reverse so the first is explored first)
			for k := len(pr.Forks) - 1; k >= 0; k-- {
				stack = append(stack, pr.Forks[k])
				f := pr.Forks[k]
				if n := len(f); n > 0 {
					tag := f[n-1].Tag
					if tag == "" && n-1 < len(pr.Taken) {
						tag = pr.Taken[n-1].Tag
					}
					res.ForkTags[tag]++
				}
			}
			switch pr.Status {
			case psOK:
				res.OK++
				if len(pr.Inconcl) > 0 {
					res.Inconcl++
				}
				if pr.Model != nil && len(res.Witnesses) < o.SampleModels {
					res.Witnesses = append(res.Witnesses, Witness{Decisions: pr.Taken, Model: pr.Model, Observes: pr.Observes, Choices: pr.Choices, Tags: pr.Tags, Steps: pr.Steps})
				}
			case psCut:
				res.Cut++
			case psFailStop:
				res.FailStop++
			case psViolation:
				if pr.Viol != nil {
					pr.Viol.Prefix = pr.Taken
					if pr.Viol.Observes == nil {
						pr.Viol.Observes = pr.Observes
					}
					res.Violations = append(res.Violations, pr.Viol)
				}
				if o.StopOnViol {
					stop = true
					res.StoppedWhy = "violation"
				}
			case psInconclusive:
				res.Inconcl++
				res.InconclWhy[pr.Reason]++
			case psEngineError:
				res.EngineErr++
				res.InconclWhy["engine error: "+pr.Reason]++
			}
			if o.Verbose {
				fmt.Fprintf(os.Stderr, "[w%d] path %d status=%d depth=%d steps=%d %s | %s\n", id, res.Paths, pr.Status, len(pr.Taken), pr.Steps, pr.Reason, fmtDecisions(pr.Taken))
			}
			if o.MaxPaths > 0 && res.Paths >= o.MaxPaths && (len(stack) > 0 || active > 0) {
				stop = true
				res.StoppedWhy = fmt.Sprintf("path limit %d", o.MaxPaths)
			}
			if o.MaxSeconds > 0 && time.Since(t0).Seconds() > o.MaxSeconds && (len(stack) > 0 || active > 0) {
				stop = true
				res.StoppedWhy = fmt.Sprintf("time limit %.0fs", o.MaxSeconds)
			}
			cond.Broadcast()
			mu.Unlock()
		}
	}
	var wg sync.WaitGroup
	for w := 0; w < o.Workers; w++ {
		wg.Add(1)
		go func(id int) { defer wg.Done(); worker(id) }(w)
	}
	wg.Wait()
	for f := range funcs {
		res.Funcs[f.String()] = true
	}
	res.Exhaustive = res.StoppedWhy == "" && res.Inconcl == 0 && res.EngineErr == 0 && len(res.InconclWhy) == 0
	res.WallSecs = time.Since(t0).Seconds()
	return res
}
