package interp

import (
	"fmt"
	"os"
	"path/filepath"
	"sort"
	"strings"

	"golang.org/x/tools/go/ssa"
)

// BuildOverlay maps harness sources under harnessDir into repoDir:
//   harnessDir/zzvrt/*.go   -> repoDir/zzvrt/*.go
//   harnessDir/<pkg>/*.go   -> repoDir/<pkg>/zz_verif_<file>.go
func BuildOverlay(harnessDir, repoDir string) (map[string][]byte, error) {
	ov := map[string][]byte{}
	ents, err := os.ReadDir(harnessDir)
	if err != nil {
		return nil, err
	}
	for _, e := range ents {
		if !e.IsDir() {
			continue
		}
		files, _ := filepath.Glob(filepath.Join(harnessDir, e.Name(), "*.go"))
		sort.Strings(files)
		for _, f := range files {
			b, err := os.ReadFile(f)
			if err != nil {
				return nil, err
			}
			base := filepath.Base(f)
			dst := filepath.Join(repoDir, e.Name(), "zz_verif_"+base)
			if e.Name() == "zzvrt" {
				dst = filepath.Join(repoDir, e.Name(), base)
			}
			ov[dst] = b
		}
	}
	return ov, nil
}

// LoadTolerant is Load, except that harness overlay files which do not type-check against
// the current tree (a refactor removed or renamed an internal function a harness refers to)
// are dropped one by one until the rest loads. dropped maps overlay path -> first error. The
// harnesses living in dropped files cannot be decided on this tree (reported INCONCLUSIVE by
// the driver); every other harness still runs. A tree that does not compile by itself, or an
// error that cannot be attributed to a harness file, is still a load failure.
func LoadTolerant(repoDir string, overlay map[string][]byte, patterns []string, tags string) (*Env, map[string]string, error) {
	dropped := map[string]string{}
	ov := map[string][]byte{}
	for k, v := range overlay {
		ov[k] = v
	}
	for iter := 0; iter < 12; iter++ {
		env, err := Load(repoDir, ov, patterns, tags)
		if err == nil {
			return env, dropped, nil
		}
		msg := err.Error()
		found := false
		for _, line := range strings.Split(msg, "\n") {
			for path := range ov {
				if strings.Contains(filepath.Base(path), "zz_verif_") && strings.Contains(line, path) {
					if _, ok := dropped[path]; !ok {
						dropped[path] = strings.TrimSpace(line)
						found = true
					}
				}
			}
		}
		if !found {
			return nil, dropped, err
		}
		for path := range dropped {
			delete(ov, path)
		}
	}
	return nil, dropped, fmt.Errorf("harness overlay does not load after dropping %d files", len(dropped))
}

// Harness finds a harness function by package suffix and name.
func (e *Env) Harness(pkgSuffix, name string) (*ssa.Function, error) {
	for _, p := range e.Pkgs {
		path := p.Pkg.Path()
		if path == RepoModule+"/"+pkgSuffix || (pkgSuffix == "." && path == RepoModule) {
			if f := p.Func(name); f != nil {
				return f, nil
			}
			return nil, fmt.Errorf("no function %s in %s", name, path)
		}
	}
	return nil, fmt.Errorf("package %s not loaded", pkgSuffix)
}

// Harnesses lists functions in a package whose name has the given prefix.
func (e *Env) Harnesses(pkgSuffix, prefix string) []string {
	var r []string
	for _, p := range e.Pkgs {
		if p.Pkg.Path() != RepoModule+"/"+pkgSuffix {
			continue
		}
		for n, m := range p.Members {
			if f, ok := m.(*ssa.Function); ok && strings.HasPrefix(n, prefix) && f.Signature.Params().Len() == 0 {
				r = append(r, n)
			}
		}
	}
	sort.Strings(r)
	return r
}

func StatusName(s int) string {
	return [...]string{"ok", "violation", "cut", "inconclusive", "engine-error", "fail-stop"}[s]
}

// Exported views of a violation for the driver.
type ViolationInfo struct {
	Label     string
	KnownID   string
	Detail    string
	Model     map[string]uint64
	Decisions []Decision
	Choices   []int
	Observes  []observed
}

func (v *violation) Info() ViolationInfo {
	vi := ViolationInfo{Label: v.Label, KnownID: v.KnownID, Detail: v.Detail, Model: v.Model, Decisions: v.Prefix, Observes: v.Observes}
	for _, d := range v.Prefix {
		if d.Kind == 'n' && strings.HasPrefix(d.Tag, "choice:") {
			vi.Choices = append(vi.Choices, d.Alt)
		}
	}
	return vi
}

func (r *ExploreResult) ViolationInfos() []ViolationInfo {
	var out []ViolationInfo
	for _, v := range r.Violations {
		out = append(out, v.Info())
	}
	return out
}

func (r *ExploreResult) KnownInfos() []ViolationInfo {
	var out []ViolationInfo
	for i := range r.KnownHits {
		out = append(out, r.KnownHits[i].Info())
	}
	return out
}
