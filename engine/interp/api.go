package interp

import (
	"fmt"
	"os"
	"path/filepath"
	"sort"
	"strings"

	"golang.org/x/tools/go/ssa"
)

// BuildOverlay maps harness sources under harnessDir into repoDir:
//   harnessDir/zzvrt/*.go   -> repoDir/zzvrt/*.go
//   harnessDir/<pkg>/*.go   -> repoDir/<pkg>/zz_verif_<file>.go
func BuildOverlay(harnessDir, repoDir string) (map[string][]byte, error) {
	ov := map[string][]byte{}
	ents, err := os.ReadDir(harnessDir)
	if err != nil {
		return nil, err
	}
	for _, e := range ents {
		if !e.IsDir() {
			continue
		}
		files, _ := filepath.Glob(filepath.Join(harnessDir, e.Name(), "*.go"))
		sort.Strings(files)
		for _, f := range files {
			b, err := os.ReadFile(f)
			if err != nil {
				return nil, err
			}
			base := filepath.Base(f)
			dst := filepath.Join(repoDir, e.Name(), "zz_verif_"+base)
			if e.Name() == "zzvrt" {
				dst = filepath.Join(repoDir, e.Name(), base)
			}
			ov[dst] = b
		}
	}
	return ov, nil
}

// Harness finds a harness function by package suffix and name.
func (e *Env) Harness(pkgSuffix, name string) (*ssa.Function, error) {
	for _, p := range e.Pkgs {
		path := p.Pkg.Path()
		if path == RepoModule+"/"+pkgSuffix || (pkgSuffix == "." && path == RepoModule) {
			if f := p.Func(name); f != nil {
				return f, nil
			}
			return nil, fmt.Errorf("no function %s in %s", name, path)
		}
	}
	return nil, fmt.Errorf("package %s not loaded", pkgSuffix)
}

// Harnesses lists functions in a package whose name has the given prefix.
func (e *Env) Harnesses(pkgSuffix, prefix string) []string {
	var r []string
	for _, p := range e.Pkgs {
		if p.Pkg.Path() != RepoModule+"/"+pkgSuffix {
			continue
		}
		for n, m := range p.Members {
			if f, ok := m.(*ssa.Function); ok && strings.HasPrefix(n, prefix) && f.Signature.Params().Len() == 0 {
				r = append(r, n)
			}
		}
	}
	sort.Strings(r)
	return r
}

func StatusName(s int) string {
	return [...]string{"ok", "violation", "cut", "inconclusive", "engine-error", "fail-stop"}[s]
}

// Exported views of a violation for the driver.
type ViolationInfo struct {
	Label     string
	KnownID   string
	Detail    string
	Model     map[string]uint64
	Decisions []Decision
	Choices   []int
	Observes  []observed
}

func (v *violation) Info() ViolationInfo {
	vi := ViolationInfo{Label: v.Label, KnownID: v.KnownID, Detail: v.Detail, Model: v.Model, Decisions: v.Prefix, Observes: v.Observes}
	for _, d := range v.Prefix {
		if d.Kind == 'n' && strings.HasPrefix(d.Tag, "choice:") {
			vi.Choices = append(vi.Choices, d.Alt)
		}
	}
	return vi
}

func (r *ExploreResult) ViolationInfos() []ViolationInfo {
	var out []ViolationInfo
	for _, v := range r.Violations {
		out = append(out, v.Info())
	}
	return out
}

func (r *ExploreResult) KnownInfos() []ViolationInfo {
	var out []ViolationInfo
	for i := range r.KnownHits {
		out = append(out, r.KnownHits[i].Info())
	}
	return out
}
