package interp

// Intercepted standard-library leaves: assembly-backed bytealg routines (with
// symbolic-byte support), unsafe string builtins, sort.Slice, errors.

import (
	"fmt"
	"go/types"
	"strings"

	"golang.org/x/tools/go/ssa"
)

// indexByte finds c in b; symbolic comparisons fork (one decision per position).
func indexByte(b []value, c value) int {
	for i, x := range b {
		if decideBool(byteEq(x, c)) {
			return i
		}
	}
	return -1
}

func byteEq(x, y value) value {
	if _, bad := x.(poison); bad {
		panic(memError("read of freed C memory"))
	}
	if isSym(x) || isSym(y) {
		return symBinop(tokenEQL, x, y)
	}
	return x.(uint8) == y.(uint8)
}

func bytesOf(v value) []value {
	switch s := v.(type) {
	case []value:
		return s
	case string, symstr:
		return strBytes(s)
	}
	panic(engineAbort{psEngineError, fmt.Sprintf("bytesOf: %T", v)})
}

func indexBytes(hay, needle []value) int {
	n := len(needle)
	if n == 0 {
		return 0
	}
	for i := 0; i+n <= len(hay); i++ {
		if decideBool(bytesEq(hay[i:i+n], needle)) {
			return i
		}
	}
	return -1
}

func cmpBytes(a, b []value) int {
	if decideBool(bytesLess(a, b)) {
		return -1
	}
	if len(a) == len(b) && decideBool(bytesEq(a, b)) {
		return 0
	}
	if len(a) != len(b) {
		// equal prefix cases are covered by bytesLess; otherwise greater
	}
	return 1
}

func init() {
	reg("internal/bytealg.IndexByte", func(fr *frame, args []value) value { return indexByte(args[0].([]value), args[1]) })
	reg("internal/bytealg.IndexByteString", func(fr *frame, args []value) value { return indexByte(strBytes(args[0]), args[1]) })
	reg("internal/bytealg.Index", func(fr *frame, args []value) value { return indexBytes(args[0].([]value), args[1].([]value)) })
	reg("internal/bytealg.IndexString", func(fr *frame, args []value) value {
		return indexBytes(strBytes(args[0]), strBytes(args[1]))
	})
	reg("internal/bytealg.Count", func(fr *frame, args []value) value {
		n := 0
		for _, x := range args[0].([]value) {
			if decideBool(byteEq(x, args[1])) {
				n++
			}
		}
		return n
	})
	reg("internal/bytealg.CountString", func(fr *frame, args []value) value {
		n := 0
		for _, x := range strBytes(args[0]) {
			if decideBool(byteEq(x, args[1])) {
				n++
			}
		}
		return n
	})
	reg("internal/bytealg.Equal", func(fr *frame, args []value) value {
		a, b := args[0].([]value), args[1].([]value)
		if len(a) != len(b) {
			return false
		}
		checkPoison(a)
		checkPoison(b)
		return bytesEq(a, b)
	})
	reg("internal/bytealg.Compare", func(fr *frame, args []value) value {
		a, b := args[0].([]value), args[1].([]value)
		checkPoison(a)
		checkPoison(b)
		return cmpBytes(a, b)
	})
	reg("internal/bytealg.CompareString", func(fr *frame, args []value) value {
		return cmpBytes(strBytes(args[0]), strBytes(args[1]))
	})
	reg("internal/bytealg.MakeNoZero", func(fr *frame, args []value) value {
		n := asInt64(args[0])
		fr.i.checkAlloc(n)
		r := make([]value, n)
		for i := range r {
			r[i] = uint8(0)
		}
		return r
	})
	reg("bytes.Equal", extTable["internal/bytealg.Equal"])
	reg("bytes.Compare", extTable["internal/bytealg.Compare"])
	reg("bytes.IndexByte", extTable["internal/bytealg.IndexByte"])
	reg("strings.IndexByte", extTable["internal/bytealg.IndexByteString"])
	reg("strings.Index", extTable["internal/bytealg.IndexString"])
	reg("strings.Compare", extTable["internal/bytealg.CompareString"])
	reg("strings.EqualFold", func(fr *frame, args []value) value {
		a, aok := args[0].(string)
		b, bok := args[1].(string)
		if !aok || !bok {
			panic(engineAbort{psInconclusive, "strings.EqualFold on symbolic string"})
		}
		return strings.EqualFold(a, b)
	})

	// strings.Builder (uses unsafe.String): model over its buf field
	reg("(*strings.Builder).String", func(fr *frame, args []value) value {
		s := (*args[0].(*value)).(structure)
		buf, _ := s[len(s)-1].([]value)
		return mkStr(buf)
	})
	reg("(*strings.Builder).copyCheck", noop)

	reg("internal/stringslite.Clone", func(fr *frame, args []value) value { return args[0] })
	reg("strings.Clone", func(fr *frame, args []value) value { return args[0] })
	reg("errors.Is", func(fr *frame, args []value) value { return errorsIs(fr, args[0].(iface), args[1].(iface), 0) })
	reg("errors.As", func(fr *frame, args []value) value {
		panic(engineAbort{psInconclusive, "errors.As not modelled"})
	})

	// sort.Slice(x any, less func(i, j int) bool): insertion sort calling the target's less
	sortSlice := func(fr *frame, args []value) value {
		itf := args[0].(iface)
		s, ok := itf.v.([]value)
		if !ok {
			panic(engineAbort{psInconclusive, "sort.Slice on non-slice"})
		}
		et := itf.t.Underlying().(*types.Slice).Elem()
		less := args[1]
		for i := 1; i < len(s); i++ {
			for j := i; j > 0; j-- {
				if !decideBool(call(fr.i, fr, 0, less, []value{j, j - 1})) {
					break
				}
				a, b := load(et, &s[j]), load(et, &s[j-1])
				store(et, &s[j], b)
				store(et, &s[j-1], a)
			}
		}
		return nil
	}
	reg("sort.Slice", sortSlice)
	reg("sort.SliceStable", sortSlice)
}

func errorsIs(fr *frame, err, target iface, depth int) bool {
	if depth > 20 {
		return false
	}
	if err.t == nil || target.t == nil {
		return err.t == nil && target.t == nil
	}
	comparable := types.Comparable(target.t)
	if comparable && sameType(err.t, target.t) && equals(err.t, err.v, target.v) {
		return true
	}
	// Is method
	if m := fr.i.prog.LookupMethod(err.t, nil, "Is"); m != nil {
		if decideBool(call(fr.i, fr, 0, m, []value{err.v, target})) {
			return true
		}
	}
	if m := fr.i.prog.LookupMethod(err.t, nil, "Unwrap"); m != nil {
		r := call(fr.i, fr, 0, m, []value{err.v})
		if inner, ok := r.(iface); ok {
			return errorsIs(fr, inner, target, depth+1)
		}
	}
	return false
}

// unsafe string/slice builtins (go1.20+), reached through strings.Builder etc.
type sliceData struct{ s []value }
type strData struct{ s value }

func unsafeBuiltin(name string, args []value) (value, bool) {
	switch name {
	case "SliceData":
		s, _ := args[0].([]value)
		return sliceData{s}, true
	case "StringData":
		return strData{args[0]}, true
	case "String":
		n := int(asInt64(args[1]))
		switch d := args[0].(type) {
		case sliceData:
			return mkStr(d.s[:n]), true
		case *value:
			if n == 0 {
				return "", true
			}
		case wordPtr:
			return mkStr(d.mem[:n]), true
		}
	case "Slice":
		n := int(asInt64(args[1]))
		switch d := args[0].(type) {
		case strData:
			b := strBytes(d.s)
			c := make([]value, n)
			copy(c, b[:n])
			return c, true
		case sliceData:
			return d.s[:n:n], true
		case wordPtr:
			return d.mem[:n:n], true
		case *value:
			if n == 0 {
				return []value(nil), true
			}
		}
	}
	return nil, false
}

var _ = ssa.NaiveForm
