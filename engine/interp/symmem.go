package interp

// Symbolic indexing and the unsafe.Pointer(&x[i]) recogniser.

import (
	"fmt"
	"go/types"

	"golang.org/x/tools/go/ssa"
	"gosym/smt"
)

// symIndex resolves an index (possibly symbolic) into [0,n) or panics like Go.
func symIndex(fr *frame, idx value, n int) int {
	s, ok := idx.(sv)
	if !ok {
		i := asInt64(idx)
		if i < 0 || i >= int64(n) {
			panic(rtError(fmt.Sprintf("index out of range [%d] with length %d", i, n)))
		}
		return int(i)
	}
	c := fr.i.ctx
	b := c.b
	inb := inBounds(b, s, n)
	if !c.branch(inb, "index-bounds") {
		panic(rtError(fmt.Sprintf("index out of range [symbolic] with length %d", n)))
	}
	return int(concInt(s, "index"))
}

func inBounds(b *smt.Builder, s sv, n int) *smt.Term {
	w := s.t.W
	if kindSigned(s.k) {
		if w < 64 && uint64(n) > (uint64(1)<<uint(w-1))-1 {
			return b.Sle(b.Const(w, 0), s.t) // every non-negative value is below n
		}
		return b.And(b.Sle(b.Const(w, 0), s.t), b.Slt(s.t, b.Const(w, uint64(n))))
	}
	if w < 64 && uint64(n) > (uint64(1)<<uint(w))-1 {
		return b.True() // n does not fit in the index type: always in bounds
	}
	return b.Ult(s.t, b.Const(w, uint64(n)))
}

// symRead reads elems[idx]; a symbolic index over scalar elements becomes an ite chain.
func symRead(fr *frame, elems []value, idx value) value {
	s, ok := idx.(sv)
	if !ok {
		i := asInt64(idx)
		if i < 0 || i >= int64(len(elems)) {
			panic(rtError(fmt.Sprintf("index out of range [%d] with length %d", i, len(elems))))
		}
		v := elems[i]
		if _, bad := v.(poison); bad {
			panic(memError("read of freed C memory"))
		}
		return v
	}
	c := fr.i.ctx
	b := c.b
	n := len(elems)
	if !c.branch(inBounds(b, s, n), "index-bounds") {
		panic(rtError(fmt.Sprintf("index out of range [symbolic] with length %d", n)))
	}
	// all scalars of one kind?
	var k types.BasicKind
	scalar := n > 0 && n <= 4096
	for j, e := range elems {
		var ek types.BasicKind
		switch x := e.(type) {
		case sv:
			ek = x.k
		default:
			kk, _, ok := concKind(e)
			if !ok {
				scalar = false
			}
			ek = kk
		}
		if !scalar {
			break
		}
		if j == 0 {
			k = ek
		} else if ek != k {
			scalar = false
			break
		}
	}
	if !scalar {
		return elems[int(concInt(s, "index"))]
	}
	// compare on the narrowest width the index provably fits in
	it := s.t
	if eff := it.W - smt.LeadingZeros(it); eff < it.W && !kindSigned(s.k) {
		if eff < 1 {
			eff = 1
		}
		it = b.Extract(it, eff-1, 0)
	}
	acc, _ := termOf(b, elems[n-1])
	for j := n - 2; j >= 0; j-- {
		tj, _ := termOf(b, elems[j])
		acc = b.Ite(b.Eq(it, b.Const(it.W, uint64(j))), tj, acc)
	}
	return mkSV(acc, k)
}

// convPtrToUnsafe recognises unsafe.Pointer(&x[i]) / unsafe.Pointer(&arr[i]) so
// that the result keeps (memory, offset); other pointer conversions use the
// generic path in conv.
func convPtrToUnsafe(fr *frame, instr *ssa.Convert) (value, bool) {
	db, ok := instr.Type().Underlying().(*types.Basic)
	if !ok || db.Kind() != types.UnsafePointer {
		return nil, false
	}
	if _, ok := instr.X.Type().Underlying().(*types.Pointer); !ok {
		return nil, false
	}
	ia, ok := instr.X.(*ssa.IndexAddr)
	if !ok {
		return nil, false
	}
	x := fr.get(ia.X)
	idx := fr.get(ia.Index)
	var elems []value
	switch x := x.(type) {
	case []value:
		elems = x
	case *value:
		elems = []value((*x).(array))
	default:
		return nil, false
	}
	i := int(asInt64(idx))
	if i < 0 || i >= len(elems) {
		return nil, false
	}
	if len(elems) > 0 {
		switch elems[0].(type) {
		case structure, array, *value, iface:
			return nil, false
		}
	}
	return unsafePtr{mem: elems[i:cap(elems)][: len(elems)-i : cap(elems)-i], cobj: fr.i.cobjOf(elems)}, true
}

// cobjOf finds the C allocation a byte slice belongs to (nil for Go memory).
func (i *interpreter) cobjOf(mem []value) *cobj {
	if cap(mem) == 0 {
		return nil
	}
	p := &mem[:1][0]
	for _, o := range i.cobjs {
		if len(o.mem) == 0 {
			continue
		}
		first := &o.mem[0]
		last := &o.mem[len(o.mem)-1]
		if uintptrOf(p) >= uintptrOf(first) && uintptrOf(p) <= uintptrOf(last) {
			return o
		}
	}
	return nil
}
