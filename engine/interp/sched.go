package interp

// Cooperative scheduler for interpreted goroutines, model channels, and the
// sync/atomic primitives. Exactly one interpreted goroutine runs at a time;
// which one runs next at a yield point is a recorded decision (pathCtx.choose).

import (
	"fmt"
	"go/token"
	"sync"
)

type thread struct {
	id      int
	name    string
	wake    chan struct{}
	done    bool
	waiting func() bool // non-nil: blocked until it returns true
	why     string
	dead    bool // discarded by a modelled process exit
}

type scheduler struct {
	i          *interpreter
	threads    []*thread
	cur        *thread
	maxPreempt int // preemptions allowed at yield points (0: switch only when blocked)
	preempts   int
	eagerSpawn bool // run a new goroutine immediately until it blocks
	exploreOrder bool
	dead       bool
	abort      interface{} // panic value to propagate to the main thread
	wg         sync.WaitGroup
	yieldFns   map[string]bool
	deadlockIsViolation bool
	clock      int64 // model time in nanoseconds
	timers     []*mchan
}

// killPanic unwinds a discarded goroutine.
type killPanic struct{}

func newScheduler(i *interpreter) *scheduler {
	s := &scheduler{i: i, clock: 1_600_000_000 * 1e9}
	main := &thread{id: 0, name: "main", wake: make(chan struct{}, 1)}
	s.threads = []*thread{main}
	s.cur = main
	return s
}

func (s *scheduler) runnable(t *thread) bool {
	if t.done || t.dead {
		return false
	}
	if t.waiting != nil {
		return t.waiting()
	}
	return true
}

func (s *scheduler) others() []*thread {
	var r []*thread
	for _, t := range s.threads {
		if t != s.cur && s.runnable(t) {
			r = append(r, t)
		}
	}
	return r
}

// switchTo hands the baton to t and parks the current thread until it is resumed.
func (s *scheduler) switchTo(t *thread) {
	me := s.cur
	if t == me {
		return
	}
	s.cur = t
	t.wake <- struct{}{}
	if me.done {
		return
	}
	<-me.wake
	s.onResume(me)
}

func (s *scheduler) onResume(me *thread) {
	if s.dead {
		panic(killPanic{})
	}
	if me.id == 0 && s.abort != nil {
		a := s.abort
		s.abort = nil
		panic(a)
	}
}

// spawn creates a new interpreted goroutine.
func (s *scheduler) spawn(fn value, args []value, pos token.Pos, name string) {
	t := &thread{id: len(s.threads), name: name, wake: make(chan struct{}, 1)}
	s.threads = append(s.threads, t)
	s.wg.Add(1)
	go func() {
		defer s.wg.Done()
		<-t.wake
		defer func() {
			r := recover()
			t.done = true
			if _, ok := r.(killPanic); ok || s.dead {
				return
			}
			if r != nil {
				// engine aborts and uncaught target panics end the whole path
				if _, isAbort := r.(engineAbort); !isAbort {
					r = engineAbort{psViolation, "uncaught panic in goroutine " + t.name + ": " + panicString(r)}
				}
				s.abort = r
				main := s.threads[0]
				main.waiting = nil
				s.cur = main
				main.wake <- struct{}{}
				return
			}
			s.exitThread(t)
		}()
		if s.dead {
			panic(killPanic{})
		}
		call(s.i, nil, pos, fn, args)
	}()
	if s.eagerSpawn {
		s.switchTo(t)
	} else {
		s.yield("go")
	}
}

// exitThread is called when a non-main thread finishes: pass the baton on.
func (s *scheduler) exitThread(t *thread) {
	// prefer deterministic order: lowest id runnable; choice if several
	var cands []*thread
	for _, o := range s.threads {
		if o != t && s.runnable(o) {
			cands = append(cands, o)
		}
	}
	if len(cands) == 0 {
		// everyone else is blocked: report through the main thread
		s.abort = s.deadlockAbort("after goroutine " + t.name + " finished")
		main := s.threads[0]
		main.waiting = nil
		s.cur = main
		main.wake <- struct{}{}
		return
	}
	k := s.pick(len(cands), "sched-exit")
	nt := cands[k]
	nt.waiting = nil
	s.cur = nt
	nt.wake <- struct{}{}
}

func (s *scheduler) deadlockAbort(where string) engineAbort {
	var desc string
	for _, t := range s.threads {
		if !t.done {
			desc += fmt.Sprintf(" [%s: %s]", t.name, t.why)
		}
	}
	st := psInconclusive
	if s.deadlockIsViolation {
		st = psViolation
	}
	return engineAbort{st, "deadlock: all goroutines blocked " + where + desc}
}

// pick selects among n runnable candidates. The order in which *other* goroutines run
// when the current one blocks or exits is explored only when the harness asked for schedule
// exploration (SchedMode > 0 or ExploreOrder); otherwise the lowest-numbered goroutine runs
// (a fixed fair schedule; the unexplored orders are outside the bound, see DESIGN.md §2.5).
func (s *scheduler) pick(n int, tag string) int {
	if n <= 1 {
		return 0
	}
	if s.maxPreempt > 0 || s.exploreOrder {
		return s.i.ctx.choose(n, tag)
	}
	return 0
}

// yield is a potential preemption point.
func (s *scheduler) yield(tag string) {
	if s.maxPreempt <= s.preempts {
		return
	}
	oth := s.others()
	if len(oth) == 0 {
		return
	}
	k := s.i.ctx.choose(len(oth)+1, "yield:"+tag)
	if k == 0 {
		return
	}
	s.preempts++
	s.switchTo(oth[k-1])
}

// block parks the current thread until cond holds.
func (s *scheduler) block(cond func() bool, why string) {
	me := s.cur
	for !cond() {
		me.waiting = cond
		me.why = why
		oth := s.others()
		if len(oth) == 0 {
			// fire the earliest timer, if any, by advancing the clock
			if s.advanceToTimer() {
				continue
			}
			me.waiting = nil
			panic(s.deadlockAbort("in " + me.name + " (" + why + ")"))
		}
		k := s.pick(len(oth), "sched-block:"+why)
		s.switchTo(oth[k])
		me.waiting = nil
	}
	me.waiting = nil
}

// drain runs all other goroutines until each is finished or blocked.
func (s *scheduler) drain() {
	for {
		oth := s.others()
		if len(oth) == 0 {
			return
		}
		k := s.pick(len(oth), "drain")
		// run it; it returns control when it blocks or exits (exitThread picks a
		// runnable thread, possibly us)
		me := s.cur
		me.waiting = func() bool { return true }
		me.why = "drain"
		s.switchTo(oth[k])
		me.waiting = nil
	}
}

// killAll discards every other goroutine (process exit / end of path).
func (s *scheduler) killAll() {
	s.dead = true
	for _, t := range s.threads[1:] {
		if !t.done {
			select {
			case t.wake <- struct{}{}:
			default:
			}
		}
	}
	s.wg.Wait()
}

func (s *scheduler) advanceToTimer() bool {
	var best *mchan
	for _, c := range s.timers {
		if c.timerFired || c.timerAt == 0 {
			continue
		}
		if best == nil || c.timerAt < best.timerAt {
			best = c
		}
	}
	if best == nil {
		return false
	}
	if best.timerAt > s.clock {
		s.clock = best.timerAt
	}
	s.fireTimers()
	return true
}

func (s *scheduler) fireTimers() {
	for _, c := range s.timers {
		if !c.timerFired && c.timerAt != 0 && c.timerAt <= s.clock {
			c.timerFired = true
			c.buf = append(c.buf, nil)
		}
	}
}

// ---------------------------------------------------------------- channels

type mchan struct {
	buf        []value
	cp         int
	closed     bool
	recvWait   int
	timerAt    int64
	timerFired bool
	taken      int // count of items ever received (for unbuffered rendezvous)
	sent       int
}

func (c *mchan) length() int {
	if c == nil {
		return 0
	}
	return len(c.buf)
}

func (c *mchan) capacity() int {
	if c == nil {
		return 0
	}
	return c.cp
}

func (c *mchan) canSend() bool {
	if c.closed {
		return true // will panic
	}
	if c.cp > 0 {
		return len(c.buf) < c.cp
	}
	return c.recvWait > 0 && len(c.buf) == 0
}

func (c *mchan) canRecv() bool { return len(c.buf) > 0 || c.closed }

func chanSend(fr *frame, c *mchan, v value) {
	s := fr.i.sched
	if c == nil {
		s.block(func() bool { return false }, "send on nil channel")
	}
	s.yield("chan-send")
	if !c.canSend() {
		s.block(c.canSend, "chan send")
	}
	if c.closed {
		panic(rtError("send on closed channel"))
	}
	c.buf = append(c.buf, v)
	c.sent++
	if c.cp == 0 {
		my := c.sent
		s.block(func() bool { return c.taken >= my }, "chan send (rendezvous)")
	}
}

func chanRecv(fr *frame, c *mchan) (value, bool) {
	s := fr.i.sched
	if c == nil {
		s.block(func() bool { return false }, "receive on nil channel")
	}
	s.yield("chan-recv")
	if !c.canRecv() {
		c.recvWait++
		s.block(c.canRecv, "chan receive")
		c.recvWait--
	}
	if len(c.buf) > 0 {
		v := c.buf[0]
		c.buf = c.buf[1:]
		c.taken++
		return v, true
	}
	return nil, false
}

func chanClose(fr *frame, c *mchan) {
	if c == nil {
		panic(rtError("close of nil channel"))
	}
	if c.closed {
		panic(rtError("close of closed channel"))
	}
	c.closed = true
}

type selCase struct {
	send bool
	c    *mchan
	v    value
}

// chanSelect returns (chosen index or -1 for default, received value, recvOK).
func chanSelect(fr *frame, cases []selCase, blocking bool) (int, value, bool) {
	s := fr.i.sched
	s.yield("select")
	ready := func() []int {
		var r []int
		for i, cs := range cases {
			if cs.c == nil {
				continue
			}
			if cs.send && cs.c.canSend() || !cs.send && cs.c.canRecv() {
				r = append(r, i)
			}
		}
		return r
	}
	r := ready()
	if len(r) == 0 {
		if !blocking {
			return -1, nil, false
		}
		for _, cs := range cases {
			if cs.c != nil && !cs.send {
				cs.c.recvWait++
			}
		}
		s.block(func() bool { return len(ready()) > 0 }, "select")
		for _, cs := range cases {
			if cs.c != nil && !cs.send {
				cs.c.recvWait--
			}
		}
		r = ready()
	}
	k := 0
	if len(r) > 1 {
		k = fr.i.ctx.choose(len(r), "select")
	}
	idx := r[k]
	cs := cases[idx]
	if cs.send {
		if cs.c.closed {
			panic(rtError("send on closed channel"))
		}
		cs.c.buf = append(cs.c.buf, cs.v)
		cs.c.sent++
		if cs.c.cp == 0 {
			my := cs.c.sent
			s.block(func() bool { return cs.c.taken >= my }, "select send (rendezvous)")
		}
		return idx, nil, false
	}
	if len(cs.c.buf) > 0 {
		v := cs.c.buf[0]
		cs.c.buf = cs.c.buf[1:]
		cs.c.taken++
		return idx, v, true
	}
	return idx, nil, false
}

func panicString(r interface{}) string {
	switch p := r.(type) {
	case targetPanic:
		return toString(p.v)
	case error:
		return p.Error()
	case string:
		return p
	}
	return fmt.Sprintf("%v", r)
}
