package interp

// Symbolic scalar operations with Go semantics (wrap-around, shifts, conversions).

import (
	"fmt"
	"go/token"
	"go/types"

	"gosym/smt"
)

type rtError string

func (e rtError) Error() string { return "runtime error: " + string(e) }
func (e rtError) RuntimeError() {}

func isSym(v value) bool {
	_, ok := v.(sv)
	return ok
}

// concKind returns the basic kind of a concrete scalar value.
func concKind(v value) (types.BasicKind, uint64, bool) {
	switch x := v.(type) {
	case bool:
		if x {
			return types.Bool, 1, true
		}
		return types.Bool, 0, true
	case int:
		return types.Int, uint64(x), true
	case int8:
		return types.Int8, uint64(x), true
	case int16:
		return types.Int16, uint64(x), true
	case int32:
		return types.Int32, uint64(x), true
	case int64:
		return types.Int64, uint64(x), true
	case uint:
		return types.Uint, uint64(x), true
	case uint8:
		return types.Uint8, uint64(x), true
	case uint16:
		return types.Uint16, uint64(x), true
	case uint32:
		return types.Uint32, uint64(x), true
	case uint64:
		return types.Uint64, x, true
	case uintptr:
		return types.Uintptr, uint64(x), true
	}
	return 0, 0, false
}

// mkConc builds the concrete Go value of kind k from raw bits.
func mkConc(k types.BasicKind, v uint64) value {
	switch k {
	case types.Bool:
		return v != 0
	case types.Int:
		return int(v)
	case types.Int8:
		return int8(v)
	case types.Int16:
		return int16(v)
	case types.Int32:
		return int32(v)
	case types.Int64:
		return int64(v)
	case types.Uint:
		return uint(v)
	case types.Uint8:
		return uint8(v)
	case types.Uint16:
		return uint16(v)
	case types.Uint32:
		return uint32(v)
	case types.Uint64:
		return v
	case types.Uintptr:
		return uintptr(v)
	}
	panic(fmt.Sprintf("mkConc: kind %v", k))
}

// mkSV wraps a term as a value, normalising constants to concrete Go values.
func mkSV(t *smt.Term, k types.BasicKind) value {
	if t.IsConst() {
		if k == types.Bool {
			return t.Val == 1
		}
		if kindSigned(k) {
			w := kindWidth(k)
			sh := uint(64 - w)
			return mkConc(k, uint64(int64(t.Val<<sh)>>sh))
		}
		return mkConc(k, t.Val)
	}
	return sv{t, k}
}

// termOf returns the term and kind of a scalar value (symbolic or concrete).
func termOf(b *smt.Builder, v value) (*smt.Term, types.BasicKind) {
	if s, ok := v.(sv); ok {
		return s.t, s.k
	}
	k, raw, ok := concKind(v)
	if !ok {
		panic(engineAbort{psInconclusive, fmt.Sprintf("unsupported symbolic operand of type %T", v)})
	}
	if k == types.Bool {
		return b.Bool(raw == 1), k
	}
	return b.Const(kindWidth(k), raw), k
}

func builderOf(vs ...value) *smt.Builder {
	for _, v := range vs {
		if s, ok := v.(sv); ok {
			return s.t.B
		}
	}
	return nil
}

func ctxOf(b *smt.Builder) *pathCtx { return b.Aux.(*pathCtx) }

func symBinop(op token.Token, x, y value) value {
	b := builderOf(x, y)
	tx, kx := termOf(b, x)
	if op == token.SHL || op == token.SHR {
		return symShift(b, op, tx, kx, y)
	}
	ty, ky := termOf(b, y)
	if kx != ky && !(kx == types.Bool) {
		// untyped-const artefacts: coerce y to x's kind when widths agree
		if kindWidth(kx) != kindWidth(ky) {
			panic(engineAbort{psEngineError, fmt.Sprintf("symBinop kind mismatch %v %s %v", kx, op, ky)})
		}
	}
	signed := kindSigned(kx)
	if kx == types.Bool {
		switch op {
		case token.EQL:
			return mkSV(b.Eq(tx, ty), types.Bool)
		case token.NEQ:
			return mkSV(b.Not(b.Eq(tx, ty)), types.Bool)
		case token.AND, token.LAND:
			return mkSV(b.And(tx, ty), types.Bool)
		case token.OR, token.LOR:
			return mkSV(b.Or(tx, ty), types.Bool)
		}
		panic(engineAbort{psEngineError, "bad bool binop " + op.String()})
	}
	switch op {
	case token.ADD:
		return mkSV(b.Add(tx, ty), kx)
	case token.SUB:
		return mkSV(b.Sub(tx, ty), kx)
	case token.MUL:
		return mkSV(b.Mul(tx, ty), kx)
	case token.QUO, token.REM:
		c := ctxOf(b)
		if c.branch(b.Eq(ty, b.Const(ty.W, 0)), "div-by-zero") {
			panic(rtError("integer divide by zero"))
		}
		switch {
		case op == token.QUO && signed:
			return mkSV(b.Sdiv(tx, ty), kx)
		case op == token.QUO:
			return mkSV(b.Udiv(tx, ty), kx)
		case signed:
			return mkSV(b.Srem(tx, ty), kx)
		default:
			return mkSV(b.Urem(tx, ty), kx)
		}
	case token.AND:
		return mkSV(b.BvAnd(tx, ty), kx)
	case token.OR:
		return mkSV(b.BvOr(tx, ty), kx)
	case token.XOR:
		return mkSV(b.BvXor(tx, ty), kx)
	case token.AND_NOT:
		return mkSV(b.BvAnd(tx, b.BvNot(ty)), kx)
	case token.EQL:
		return mkSV(b.Eq(tx, ty), types.Bool)
	case token.NEQ:
		return mkSV(b.Not(b.Eq(tx, ty)), types.Bool)
	case token.LSS:
		if signed {
			return mkSV(b.Slt(tx, ty), types.Bool)
		}
		return mkSV(b.Ult(tx, ty), types.Bool)
	case token.LEQ:
		if signed {
			return mkSV(b.Sle(tx, ty), types.Bool)
		}
		return mkSV(b.Ule(tx, ty), types.Bool)
	case token.GTR:
		if signed {
			return mkSV(b.Slt(ty, tx), types.Bool)
		}
		return mkSV(b.Ult(ty, tx), types.Bool)
	case token.GEQ:
		if signed {
			return mkSV(b.Sle(ty, tx), types.Bool)
		}
		return mkSV(b.Ule(ty, tx), types.Bool)
	}
	panic(engineAbort{psEngineError, "unsupported symbolic binop " + op.String()})
}

func symShift(b *smt.Builder, op token.Token, tx *smt.Term, kx types.BasicKind, y value) value {
	ty, ky := termOf(b, y)
	wx := tx.W
	if kindSigned(ky) && !ty.IsConst() {
		c := ctxOf(b)
		if c.branch(b.Slt(ty, b.Const(ty.W, 0)), "negative-shift") {
			panic(rtError("negative shift amount"))
		}
	} else if kindSigned(ky) && ty.IsConst() {
		if int64(ty.Val<<uint(64-ty.W))>>uint(64-ty.W) < 0 {
			panic(rtError("negative shift amount"))
		}
	}
	var amt *smt.Term
	switch {
	case ty.W == wx:
		amt = ty
	case ty.W < wx:
		amt = b.Zext(ty, wx)
	default:
		big := b.Ule(b.Const(ty.W, uint64(wx)), ty)
		amt = b.Ite(big, b.Const(wx, uint64(wx)), b.Extract(ty, wx-1, 0))
	}
	switch {
	case op == token.SHL:
		return mkSV(b.Shl(tx, amt), kx)
	case kindSigned(kx):
		return mkSV(b.Ashr(tx, amt), kx)
	default:
		return mkSV(b.Lshr(tx, amt), kx)
	}
}

func symUnop(op token.Token, x sv) value {
	b := x.t.B
	switch op {
	case token.SUB:
		return mkSV(b.Neg(x.t), x.k)
	case token.XOR:
		return mkSV(b.BvNot(x.t), x.k)
	case token.NOT:
		return mkSV(b.Not(x.t), types.Bool)
	}
	panic(engineAbort{psEngineError, "unsupported symbolic unop " + op.String()})
}

// symConvInt converts a symbolic integer to integer kind dst.
func symConvInt(x sv, dst types.BasicKind) value {
	b := x.t.B
	return mkSV(b.Resize(x.t, kindWidth(dst), kindSigned(x.k)), dst)
}

// asBoolTerm returns a Bool term for a bool value.
func asBoolTerm(b *smt.Builder, v value) *smt.Term {
	switch x := v.(type) {
	case bool:
		return b.Bool(x)
	case sv:
		if x.k != types.Bool {
			panic(engineAbort{psEngineError, "asBoolTerm: not a bool"})
		}
		return x.t
	}
	panic(engineAbort{psEngineError, fmt.Sprintf("asBoolTerm: %T", v)})
}
