package interp

// A small fmt implementation over interpreter values (Sprintf, Errorf, Fprintf).
// Concrete scalars are formatted by the host's fmt; strings with symbolic bytes
// stay symbolic; symbolic integers are concretized (forked).

import (
	"fmt"
	"go/types"
	"strings"

	"golang.org/x/tools/go/ssa"
)

func (i *interpreter) methodOf(t types.Type, name string) *ssa.Function {
	ms := i.prog.MethodSets.MethodSet(t)
	for k := 0; k < ms.Len(); k++ {
		sel := ms.At(k)
		if sel.Obj().Name() == name {
			return i.prog.MethodValue(sel)
		}
	}
	return nil
}

// stringOf renders v (of static/dynamic type t) for %s / %v.
func (fr *frame) stringOf(t types.Type, v value, verb byte) []value {
	i := fr.i
	if t != nil {
		if _, isPtr := v.(*value); isPtr && v.(*value) == nil {
			return strBytes("<nil>")
		}
		if types.Implements(t, errorIface) {
			if m := i.methodOf(t, "Error"); m != nil {
				return strBytes(call(i, fr, 0, m, []value{v}))
			}
		}
		if verb != 'd' && verb != 'x' {
			if m := i.methodOf(t, "String"); m != nil && m.Signature.Params().Len() == 0 {
				r := call(i, fr, 0, m, []value{v})
				if isStr(r) {
					return strBytes(r)
				}
			}
		}
	}
	switch x := v.(type) {
	case string, symstr:
		return strBytes(x)
	case []value:
		if t != nil {
			if sl, ok := t.Underlying().(*types.Slice); ok {
				if k, ok := basicKindOf(sl.Elem()); ok && k == types.Byte && verb == 's' {
					return x
				}
			}
		}
		var out []value
		out = append(out, uint8('['))
		for k, e := range x {
			if k > 0 {
				out = append(out, uint8(' '))
			}
			out = append(out, fr.stringOf(nil, e, verb)...)
		}
		return append(out, uint8(']'))
	case iface:
		if x.t == nil {
			return strBytes("<nil>")
		}
		return fr.stringOf(x.t, x.v, verb)
	case sv:
		if x.k == types.Bool {
			return strBytes("<symbool>")
		}
		// formatting must not fork paths (error texts and log lines are never
		// inspected by the code under test): a symbolic integer prints as a placeholder
		return strBytes("<sym>")
	case bool:
		return strBytes(fmt.Sprintf("%v", x))
	case *value:
		if x == nil {
			return strBytes("<nil>")
		}
		if t != nil {
			if pt, ok := t.Underlying().(*types.Pointer); ok {
				if _, isStruct := pt.Elem().Underlying().(*types.Struct); isStruct {
					return append(strBytes("&"), fr.stringOf(pt.Elem(), *x, verb)...)
				}
			}
		}
		return strBytes("0xc000000000")
	case structure:
		var out []value
		out = append(out, uint8('{'))
		var st *types.Struct
		if t != nil {
			st, _ = t.Underlying().(*types.Struct)
		}
		for k, e := range x {
			if k > 0 {
				out = append(out, uint8(' '))
			}
			var ft types.Type
			if st != nil && k < st.NumFields() {
				ft = st.Field(k).Type()
			}
			out = append(out, fr.stringOf(ft, e, 'v')...)
		}
		return append(out, uint8('}'))
	case array:
		return fr.stringOf(nil, []value(x), verb)
	case *omap:
		return strBytes("map[...]")
	case nil:
		return strBytes("<nil>")
	case uptrInt:
		return strBytes("0xc0de")
	}
	if _, _, ok := concKind(v); ok {
		return strBytes(fmt.Sprintf("%v", v))
	}
	switch v.(type) {
	case float32, float64:
		return strBytes(fmt.Sprintf("%v", v))
	}
	return strBytes(fmt.Sprintf("<%T>", v))
}

func sprintfValues(fr *frame, format value, argv value) string {
	r := fr.sprintf(format, argv)
	if s, ok := r.(string); ok {
		return s
	}
	return "<symbolic string>"
}

// sprintf implements the verbs used by the code under test.
func (fr *frame) sprintf(format value, argv value) value {
	f, ok := format.(string)
	if !ok {
		panic(engineAbort{psInconclusive, "fmt with symbolic format string"})
	}
	args, _ := argv.([]value)
	var out []value
	ai := 0
	for p := 0; p < len(f); p++ {
		c := f[p]
		if c != '%' {
			out = append(out, c)
			continue
		}
		q := p + 1
		for q < len(f) && strings.IndexByte("+-# 0123456789.", f[q]) >= 0 {
			q++
		}
		if q >= len(f) {
			out = append(out, strBytes("%!(NOVERB)")...)
			break
		}
		verb := f[q]
		spec := f[p : q+1]
		p = q
		if verb == '%' {
			out = append(out, uint8('%'))
			continue
		}
		if ai >= len(args) {
			out = append(out, strBytes("%!"+string(verb)+"(MISSING)")...)
			continue
		}
		a := args[ai].(iface)
		ai++
		v := a.v
		if a.t != nil {
			// named integer types with String/Error methods are handled by stringOf
		}
		switch verb {
		case 'd', 'x', 'X', 'c', 'o', 'b', 'q', 'U':
			if s, isS := v.(sv); isS && s.k != types.Bool {
				if fr.i.exactFmt {
					r := concInt(s, "fmt")
					if kindSigned(s.k) {
						v = mkConc(types.Int64, uint64(r))
					} else {
						v = mkConc(types.Uint64, uint64(r))
					}
				} else {
					out = append(out, strBytes("<sym>")...)
					continue
				}
			}
			if _, _, isInt := concKind(v); isInt {
				out = append(out, strBytes(fmt.Sprintf(spec, v))...)
				continue
			}
			if verb == 'x' || verb == 'X' {
				var bs []value
				switch x := v.(type) {
				case string, symstr:
					bs = strBytes(x)
				case []value:
					bs = x
				}
				if bs != nil || isStr(v) {
					hb := make([]byte, len(bs))
					symb := false
					for k, e := range bs {
						if _, isS := e.(sv); isS && !fr.i.exactFmt {
							symb = true
							break
						}
						hb[k] = uint8(concInt(e, "fmt-hex"))
					}
					if symb {
						out = append(out, strBytes("<symhex>")...)
						continue
					}
					out = append(out, strBytes(fmt.Sprintf(spec, hb))...)
					continue
				}
			}
			out = append(out, fr.stringOf(a.t, v, verb)...)
		case 's', 'v':
			if strings.Contains(spec, "#") {
				out = append(out, fr.stringOf(nil, v, 'v')...)
				continue
			}
			s := fr.stringOf(a.t, a.v, verb)
			if spec != "%s" && spec != "%v" && spec != "%+v" {
				// width/precision: only for concrete strings
				if cs, ok := mkStr(s).(string); ok {
					out = append(out, strBytes(fmt.Sprintf(strings.Replace(spec, "v", "s", 1), cs))...)
					continue
				}
			}
			out = append(out, s...)
		case 't':
			out = append(out, fr.stringOf(a.t, v, verb)...)
		case 'f', 'g', 'e':
			out = append(out, strBytes(fmt.Sprintf(spec, v))...)
		case 'p':
			out = append(out, strBytes("0xc000000000")...)
		case 'T':
			if a.t == nil {
				out = append(out, strBytes("<nil>")...)
			} else {
				out = append(out, strBytes(a.t.String())...)
			}
		default:
			out = append(out, fr.stringOf(a.t, v, 'v')...)
		}
	}
	if ai < len(args) {
		out = append(out, strBytes("%!(EXTRA)")...)
	}
	return mkStr(out)
}

func (fr *frame) sprint(argv value, ln bool) value {
	args, _ := argv.([]value)
	var out []value
	for k, a := range args {
		if k > 0 && ln {
			out = append(out, uint8(' '))
		}
		it := a.(iface)
		out = append(out, fr.stringOf(it.t, it.v, 'v')...)
	}
	if ln {
		out = append(out, uint8('\n'))
	}
	return mkStr(out)
}

func init() {
	reg("fmt.Sprintf", func(fr *frame, args []value) value { return fr.sprintf(args[0], args[1]) })
	reg("fmt.Sprint", func(fr *frame, args []value) value { return fr.sprint(args[0], false) })
	reg("fmt.Sprintln", func(fr *frame, args []value) value { return fr.sprint(args[0], true) })
	reg("fmt.Errorf", func(fr *frame, args []value) value {
		msg := fr.sprintf(args[0], args[1])
		newFn := fr.i.env.byName["errors.New"]
		if newFn == nil {
			panic(engineAbort{psEngineError, "errors.New not in program"})
		}
		return call(fr.i, fr, 0, newFn, []value{msg})
	})
	writeTo := func(fr *frame, w value, s value) value {
		it := w.(iface)
		if it.t == nil {
			panic(rtError("invalid memory address or nil pointer dereference (nil io.Writer)"))
		}
		m := fr.i.methodOf(it.t, "Write")
		if m == nil {
			panic(engineAbort{psEngineError, "writer without Write"})
		}
		b := strBytes(s)
		if _, isS := s.(symstr); isS {
			b = append([]value(nil), b...)
		}
		return call(fr.i, fr, 0, m, []value{it.v, b})
	}
	reg("fmt.Fprintf", func(fr *frame, args []value) value { return writeTo(fr, args[0], fr.sprintf(args[1], args[2])) })
	reg("fmt.Fprint", func(fr *frame, args []value) value { return writeTo(fr, args[0], fr.sprint(args[1], false)) })
	reg("fmt.Fprintln", func(fr *frame, args []value) value { return writeTo(fr, args[0], fr.sprint(args[1], true)) })
	reg("fmt.Println", func(fr *frame, args []value) value { return tuple{0, iface{}} })
	reg("fmt.Print", func(fr *frame, args []value) value { return tuple{0, iface{}} })
	reg("fmt.Printf", func(fr *frame, args []value) value { return tuple{0, iface{}} })
}
