package interp

// Memory model of the LLVM-IR executor for C code that writes memory and keeps
// pointers in memory (quicklz.c): typed getelementptr, integer and pointer
// loads/stores, memcpy/memset, pointers with a symbolic offset, and a sparse
// "log region" for the compressor's 528 400-byte scratch area (hash table of
// pointers + counters) whose index depends on the data.
//
// Every access is bounds-checked against the object the pointer was derived
// from: an access that can leave its object is an engine-detected violation
// (memory safety), decided by the solver for symbolic offsets.

import (
	"fmt"
	"go/token"
	"go/types"
	"strconv"
	"strings"

	"gosym/smt"
)

// ---- types -------------------------------------------------------------

type llType struct {
	kind   byte // 'i' int, 'p' pointer, 'a' array, 's' struct
	bits   int
	n      int
	elem   *llType
	fields []*llType
}

func (ck *cKernels) parseType(t []string, i int) (*llType, int) {
	if i >= len(t) {
		panic(engineAbort{psInconclusive, "llvm: type expected"})
	}
	var ty *llType
	if t[i] == "[" {
		n, err := strconv.Atoi(t[i+1])
		if err != nil || t[i+2] != "x" {
			panic(engineAbort{psInconclusive, "llvm: array type"})
		}
		el, j := ck.parseType(t, i+3)
		if j >= len(t) || t[j] != "]" {
			panic(engineAbort{psInconclusive, "llvm: array type ]"})
		}
		ty = &llType{kind: 'a', n: n, elem: el}
		i = j + 1
	} else {
		tok := t[i]
		stars := 0
		for strings.HasSuffix(tok, "*") {
			tok = tok[:len(tok)-1]
			stars++
		}
		switch {
		case tok == "ptr":
			ty = &llType{kind: 'p'}
		case strings.HasPrefix(tok, "%"):
			fs, ok := ck.structs[tok]
			if !ok {
				panic(engineAbort{psInconclusive, "llvm: unknown struct type " + tok})
			}
			st := &llType{kind: 's'}
			for _, f := range fs {
				ft, _ := ck.parseType(tokenizeLL(f), 0)
				st.fields = append(st.fields, ft)
			}
			ty = st
		case llWidth(tok) > 0:
			ty = &llType{kind: 'i', bits: llWidth(tok)}
		default:
			panic(engineAbort{psInconclusive, "llvm: type " + tok})
		}
		for ; stars > 0; stars-- {
			ty = &llType{kind: 'p', elem: ty}
		}
		i++
	}
	for i < len(t) && t[i] == "*" {
		ty = &llType{kind: 'p', elem: ty}
		i++
	}
	return ty, i
}

func tokenizeLL(s string) []string {
	return strings.Fields(strings.NewReplacer(",", " ", "(", " ( ", ")", " ) ", "[", " [ ", "]", " ] ").Replace(s))
}

func (ty *llType) align() int {
	switch ty.kind {
	case 'i':
		if ty.bits <= 8 {
			return 1
		}
		return ty.bits / 8
	case 'p':
		return 8
	case 'a':
		return ty.elem.align()
	case 's':
		a := 1
		for _, f := range ty.fields {
			if fa := f.align(); fa > a {
				a = fa
			}
		}
		return a
	}
	return 1
}

func (ty *llType) size() int {
	switch ty.kind {
	case 'i':
		return (ty.bits + 7) / 8
	case 'p':
		return 8
	case 'a':
		return ty.n * ty.elem.size()
	case 's':
		off := 0
		for _, f := range ty.fields {
			a := f.align()
			off = (off + a - 1) / a * a
			off += f.size()
		}
		a := ty.align()
		return (off + a - 1) / a * a
	}
	return 0
}

func (ty *llType) fieldOff(k int) int {
	off := 0
	for j, f := range ty.fields {
		a := f.align()
		off = (off + a - 1) / a * a
		if j == k {
			return off
		}
		off += f.size()
	}
	panic(engineAbort{psInconclusive, "llvm: struct field index"})
}

// ---- pointers ------------------------------------------------------------

func (p llptr) isNull() bool {
	return p.mem == nil && p.glob == "" && p.reg == nil && !p.undef
}

func (p llptr) sameObject(q llptr) bool {
	if p.reg != nil || q.reg != nil {
		return p.reg == q.reg
	}
	if p.glob != "" || q.glob != "" {
		return p.glob == q.glob
	}
	if p.mem == nil || q.mem == nil {
		return false
	}
	return sameMem(p.mem, q.mem)
}

// offTerm is the total byte offset as a 64-bit term.
func (p llptr) offTerm(b *smt.Builder) *smt.Term {
	t := b.Const(64, uint64(int64(p.off)))
	if p.soff != nil {
		t = b.Add(t, p.soff)
	}
	return t
}

// addrOf gives the model address of a pointer (objects live far apart at fixed, 16-aligned
// model addresses; only differences and comparisons inside one object are meaningful).
func (lf *llFrame) addrOf(p llptr) value {
	if p.undef {
		return symScalarCtx(lf.i.ctx, "cundef", types.Uint64)
	}
	if p.isNull() {
		return uint64(0)
	}
	a := p.base + uint64(int64(p.off))
	if p.soff == nil {
		return a
	}
	b := p.soff.B
	return mkSV(b.Add(b.Const(64, a), p.soff), types.Uint64)
}

// addIdx adds idx*scale bytes to p.
func (lf *llFrame) addIdx(p llptr, idx value, scale int) llptr {
	if p.undef {
		return p
	}
	s, ok := forceLazy(idx).(sv)
	if !ok {
		p.off += int(asInt64(toKind(idx, types.Int64))) * scale
		return p
	}
	b := s.t.B
	it := s.t
	eff := it.W - smt.LeadingZeros(it)
	if it.W < 64 {
		if kindSigned(s.k) {
			it = b.Sext(it, 64)
			eff = 64
		} else {
			it = b.Zext(it, 64)
		}
	}
	term := it
	if scale != 1 {
		term = b.Mul(it, b.Const(64, uint64(int64(scale))))
	}
	max := ^uint64(0)
	if eff <= 32 && scale > 0 {
		max = (uint64(1)<<uint(eff) - 1) * uint64(scale)
	}
	if p.soff == nil {
		p.soff, p.smax, p.salign = term, max, scale
	} else {
		p.soff = b.Add(p.soff, term)
		if p.smax != ^uint64(0) && max != ^uint64(0) {
			p.smax += max
		} else {
			p.smax = ^uint64(0)
		}
		p.salign = gcd(p.salign, scale)
	}
	if p.salign < 0 {
		p.salign = -p.salign
	}
	return p
}

func gcd(a, b int) int {
	if a < 0 {
		a = -a
	}
	if b < 0 {
		b = -b
	}
	for b != 0 {
		a, b = b, a%b
	}
	return a
}

// resolve bounds-checks a w-byte access through p into ordinary byte memory and returns the
// object's bytes and the concrete offset (forking over the feasible in-bounds offsets when
// the offset is symbolic).
func (lf *llFrame) resolve(p llptr, w int, what string) ([]value, int) {
	if p.undef {
		panic(memError(lf.fn + ": " + what + " through an uninitialised pointer"))
	}
	if p.mem == nil {
		panic(memError(lf.fn + ": " + what + " through a null pointer"))
	}
	full := p.mem[:cap(p.mem)]
	if p.soff == nil {
		if p.off < 0 || p.off+w > len(full) {
			panic(memError(fmt.Sprintf("%s: %s of %d byte(s) at offset %d of a %d-byte object", lf.fn, what, w, p.off, len(full))))
		}
		return full, p.off
	}
	b := p.soff.B
	c := lf.i.ctx
	tot := p.offTerm(b)
	inb := b.And(b.Sle(b.Const(64, 0), tot), b.Sle(tot, b.Const(64, uint64(int64(len(full)-w)))))
	if len(full) < w {
		inb = b.False()
	}
	if !c.branch(inb, "c-bounds") {
		panic(memError(fmt.Sprintf("%s: %s of %d byte(s) at a data-dependent offset outside its %d-byte object", lf.fn, what, w, len(full))))
	}
	o := int(int64(c.concretize(tot, "c-offset")))
	return full, o
}

func (lf *llFrame) loadInt(p llptr, bits int) value {
	w := bits / 8
	if p.reg != nil {
		return p.reg.load(lf, p, w, false)
	}
	full, o := lf.resolve(p, w, "read")
	m := full[o : o+w]
	checkPoisonC(lf, m)
	if w == 1 {
		return m[0]
	}
	return leCombine(m, uKind(bits))
}

func checkPoisonC(lf *llFrame, m []value) {
	for _, v := range m {
		if _, bad := v.(poison); bad {
			panic(memError(lf.fn + ": read of freed memory"))
		}
	}
}

func (lf *llFrame) storeInt(p llptr, bits int, v value) {
	w := bits / 8
	if p.reg != nil {
		p.reg.store(lf, p, w, v)
		return
	}
	full, o := lf.resolve(p, w, "write")
	m := full[o : o+w]
	checkPoisonC(lf, m)
	v = forceLazy(v)
	if s, ok := v.(sv); ok {
		b := s.t.B
		if w == 1 {
			m[0] = mkSV(s.t, types.Uint8)
			return
		}
		for i := 0; i < w; i++ {
			m[i] = mkSV(b.Extract(s.t, 8*i+7, 8*i), types.Uint8)
		}
		return
	}
	_, raw, ok := concKind(v)
	if !ok {
		panic(engineAbort{psInconclusive, "llvm: store of non-integer"})
	}
	for i := 0; i < w; i++ {
		m[i] = uint8(raw >> (8 * uint(i)))
	}
}

// memRange bounds-checks an n-byte range access (memcpy/memset) and returns the bytes.
func (lf *llFrame) memRange(p llptr, n int, what string) []value {
	if n == 0 {
		return nil
	}
	full, o := lf.resolve(p, n, what)
	return full[o : o+n]
}

// ---- sparse scratch region ---------------------------------------------------

type regEntry struct {
	off    int
	soff   *smt.Term
	smax   uint64
	salign int
	w      int   // bytes (memset: length)
	val    value // integer of w bytes or llptr; memset: the fill byte
	set    bool
}

type logRegion struct {
	size int
	log  []regEntry
}

func span(off int, smax uint64, w int) (int64, int64, bool) {
	if smax == ^uint64(0) {
		return 0, 0, false
	}
	return int64(off), int64(off) + int64(smax) + int64(w), true
}

func (r *logRegion) check(lf *llFrame, p llptr, w int, what string) {
	lo, hi, ok := span(p.off, pmax(p), w)
	if ok && lo >= 0 && hi <= int64(r.size) {
		return
	}
	if p.soff == nil {
		panic(memError(fmt.Sprintf("%s: %s of %d byte(s) at offset %d of the %d-byte scratch buffer", lf.fn, what, w, p.off, r.size)))
	}
	b := p.soff.B
	tot := p.offTerm(b)
	inb := b.And(b.Sle(b.Const(64, 0), tot), b.Sle(tot, b.Const(64, uint64(int64(r.size-w)))))
	if !lf.i.ctx.branch(inb, "c-bounds") {
		panic(memError(fmt.Sprintf("%s: %s of %d byte(s) at a data-dependent offset outside the %d-byte scratch buffer", lf.fn, what, w, r.size)))
	}
}

func pmax(p llptr) uint64 {
	if p.soff == nil {
		return 0
	}
	return p.smax
}

func (r *logRegion) store(lf *llFrame, p llptr, w int, v value) {
	r.check(lf, p, w, "write")
	r.log = append(r.log, regEntry{off: p.off, soff: p.soff, smax: pmax(p), salign: p.salign, w: w, val: v})
}

func (r *logRegion) memset(lf *llFrame, p llptr, n int, v value) {
	if p.soff != nil {
		panic(engineAbort{psInconclusive, "llvm: memset at a symbolic scratch offset"})
	}
	if p.off < 0 || p.off+n > r.size {
		panic(memError(fmt.Sprintf("%s: memset of %d bytes at offset %d of the %d-byte scratch buffer", lf.fn, n, p.off, r.size)))
	}
	r.log = append(r.log, regEntry{off: p.off, w: n, val: v, set: true})
}

func (r *logRegion) load(lf *llFrame, p llptr, w int, isPtr bool) value {
	r.check(lf, p, w, "read")
	c := lf.i.ctx
	lo1, hi1, ok1 := span(p.off, pmax(p), w)
	for i := len(r.log) - 1; i >= 0; i-- {
		e := r.log[i]
		lo2, hi2, ok2 := span(e.off, e.smax, e.w)
		if ok1 && ok2 && (hi1 <= lo2 || hi2 <= lo1) {
			continue
		}
		if e.set {
			if ok1 && lo1 >= lo2 && hi1 <= hi2 {
				fill, isC := e.val.(uint8)
				if !isC {
					panic(engineAbort{psInconclusive, "llvm: symbolic memset fill"})
				}
				if isPtr {
					if fill != 0 {
						panic(engineAbort{psInconclusive, "llvm: pointer read from non-zero memset"})
					}
					return llptr{}
				}
				var raw uint64
				for k := 0; k < w; k++ {
					raw = raw<<8 | uint64(fill)
				}
				return llConst(8*w, raw)
			}
			panic(engineAbort{psInconclusive, "llvm: scratch read partially overlapping a memset range"})
		}
		if p.soff == nil && e.soff == nil {
			if p.off == e.off && w == e.w {
				return r.typed(e.val, isPtr)
			}
			panic(engineAbort{psInconclusive, "llvm: partially overlapping scratch accesses"})
		}
		if w != e.w {
			panic(engineAbort{psInconclusive, "llvm: scratch accesses of different widths may overlap"})
		}
		var b *smt.Builder
		if p.soff != nil {
			b = p.soff.B
		} else {
			b = e.soff.B
		}
		ep := llptr{off: e.off, soff: e.soff}
		a1, a2 := p.offTerm(b), ep.offTerm(b)
		if c.branch(b.Eq(a1, a2), "c-alias") {
			return r.typed(e.val, isPtr)
		}
		// different addresses: partial overlap must be impossible
		aligned := func(off int, soff *smt.Term, al int) bool {
			return off%w == p.off%w && (soff == nil || (al > 0 && al%w == 0))
		}
		if !(aligned(p.off, p.soff, p.salign) && aligned(e.off, e.soff, e.salign)) {
			d := b.Sub(a1, a2)
			wc := b.Const(64, uint64(w))
			ov := b.Or(b.Ult(d, wc), b.Ult(b.Neg(d), wc))
			if res, _ := c.feasible(ov); res != smt.Unsat {
				panic(engineAbort{psInconclusive, "llvm: scratch accesses may partially overlap"})
			}
		}
	}
	// never written: arbitrary content (malloc'ed, not zeroed); remember it so that a second
	// read sees the same bytes
	var v value
	if isPtr {
		v = llptr{undef: true}
	} else {
		v = symScalarCtx(c, "cscratch", uKind(8*w))
	}
	r.log = append(r.log, regEntry{off: p.off, soff: p.soff, smax: pmax(p), salign: p.salign, w: w, val: v})
	return v
}

func (r *logRegion) typed(v value, isPtr bool) value {
	_, vp := v.(llptr)
	if vp != isPtr {
		panic(engineAbort{psInconclusive, "llvm: scratch slot read with a different type than written"})
	}
	return v
}

// ---- values ----------------------------------------------------------------------

// iteVal is select(c, x, y) over integers, booleans and pointers.
func (lf *llFrame) iteVal(cv, x, y value) value {
	s, ok := cv.(sv)
	if !ok {
		if cv.(bool) {
			return x
		}
		return y
	}
	px, xp := x.(llptr)
	py, yp := y.(llptr)
	if xp || yp {
		if xp && yp && px.sameObject(py) && !px.undef && !py.undef && !px.isNull() {
			b := s.t.B
			r := px
			r.off, r.smax, r.salign = 0, ^uint64(0), 1
			r.soff = b.Ite(s.t, px.offTerm(b), py.offTerm(b))
			return r
		}
		if lf.i.ctx.branch(s.t, "c-select-ptr") {
			return x
		}
		return y
	}
	bb := s.t.B
	if _, isB := x.(bool); isB {
		return mkBoolSV(bb.Ite(s.t, asBoolTerm(bb, x), asBoolTerm(bb, y)))
	}
	if sx, ok := x.(sv); ok && sx.t.W == 0 {
		return mkBoolSV(bb.Ite(s.t, asBoolTerm(bb, x), asBoolTerm(bb, y)))
	}
	if sy, ok := y.(sv); ok && sy.t.W == 0 {
		return mkBoolSV(bb.Ite(s.t, asBoolTerm(bb, x), asBoolTerm(bb, y)))
	}
	tx, k := termOf(bb, forceLazy(x))
	ty, _ := termOf(bb, forceLazy(y))
	return mkSV(bb.Ite(s.t, tx, ty), k)
}

func mkBoolSV(t *smt.Term) value {
	if t.IsConst() {
		return t.Val == 1
	}
	return sv{t, types.Bool}
}

func (lf *llFrame) cmpPtr(pred string, x, y llptr) value {
	if !x.undef && !y.undef && x.soff == nil && y.soff == nil && (x.sameObject(y) || x.isNull() || y.isNull()) {
		ax, ay := x.base+uint64(int64(x.off)), y.base+uint64(int64(y.off))
		if x.isNull() {
			ax = 0
		}
		if y.isNull() {
			ay = 0
		}
		switch pred {
		case "eq":
			return ax == ay
		case "ne":
			return ax != ay
		case "ult":
			return ax < ay
		case "ule":
			return ax <= ay
		case "ugt":
			return ax > ay
		case "uge":
			return ax >= ay
		}
		panic(engineAbort{psInconclusive, "llvm: pointer compare " + pred})
	}
	if !x.undef && !y.undef && !x.isNull() && !y.isNull() && !x.sameObject(y) {
		switch pred {
		case "eq":
			return false
		case "ne":
			return true
		}
		panic(engineAbort{psInconclusive, "llvm: ordering comparison of pointers into different objects"})
	}
	ax, ay := lf.addrOf(x), lf.addrOf(y)
	var op token.Token
	switch pred {
	case "eq":
		op = token.EQL
	case "ne":
		op = token.NEQ
	case "ult":
		op = token.LSS
	case "ule":
		op = token.LEQ
	case "ugt":
		op = token.GTR
	case "uge":
		op = token.GEQ
	default:
		panic(engineAbort{psInconclusive, "llvm: pointer compare " + pred})
	}
	return binop(op, nil, ax, ay)
}

// callArgs parses "(ty attrs val, ty attrs val, ...)" of a call instruction.
func (lf *llFrame) callArgs(text string) (string, []value, string) {
	at := strings.Index(text, "@")
	op := strings.Index(text[at:], "(") + at
	fn := text[at+1 : op]
	depth, end := 0, -1
	for k := op; k < len(text); k++ {
		if text[k] == '(' {
			depth++
		} else if text[k] == ')' {
			depth--
			if depth == 0 {
				end = k
				break
			}
		}
	}
	if end < 0 {
		panic(engineAbort{psInconclusive, "llvm: call syntax"})
	}
	var args []value
	for _, a := range splitTop(text[op+1 : end]) {
		f := strings.Fields(a)
		if len(f) < 2 {
			continue
		}
		args = append(args, lf.operand(f[0], f[len(f)-1]))
	}
	// result type: token after "call" (skipping flags)
	rt := ""
	for _, x := range strings.Fields(text[:at]) {
		switch x {
		case "call", "tail", "notail", "musttail", "noundef", "zeroext", "signext":
			continue
		}
		if strings.HasPrefix(x, "%") && strings.Contains(text[:at], x+" =") {
			continue
		}
		if x == "=" {
			continue
		}
		rt = x
	}
	return fn, args, rt
}
