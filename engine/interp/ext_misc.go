package interp

// filepath.Glob over the model file system, and the yaml round-trip stub used
// for the collision table file.

import (
	"fmt"
	"path"
	"path/filepath"
	"strconv"
	"strings"
)

func hasMeta(s string) bool { return strings.ContainsAny(s, "*?[\\") }

// deepCopy copies a value graph (pointers are followed; sharing inside the graph is preserved).
func deepCopy(v value, memo map[*value]*value) value {
	switch x := v.(type) {
	case structure:
		c := make(structure, len(x))
		for i := range x {
			c[i] = deepCopy(x[i], memo)
		}
		return c
	case array:
		c := make(array, len(x))
		for i := range x {
			c[i] = deepCopy(x[i], memo)
		}
		return c
	case []value:
		if x == nil {
			return x
		}
		c := make([]value, len(x), cap(x))
		for i := range x {
			c[i] = deepCopy(x[i], memo)
		}
		return c
	case *value:
		if x == nil {
			return x
		}
		if n, ok := memo[x]; ok {
			return n
		}
		n := new(value)
		memo[x] = n
		*n = deepCopy(*x, memo)
		return n
	case *omap:
		if x == nil {
			return x
		}
		c := makeMap(x.kt, 0).(*omap)
		for i, k := range x.keys {
			if !x.dead[i] {
				c.insert(deepCopy(k, memo), deepCopy(x.vals[i], memo))
			}
		}
		return c
	case iface:
		return iface{x.t, deepCopy(x.v, memo)}
	}
	return v
}

func init() {
	reg("path/filepath.Glob", func(fr *frame, args []value) value {
		pattern := args[0].(string)
		dir, base := path.Split(pattern)
		if hasMeta(dir) {
			panic(engineAbort{psInconclusive, "Glob with wildcards in the directory part: " + pattern})
		}
		if _, err := filepath.Match(base, ""); err != nil {
			bad := fr.i.env.byName["path/filepath.init"]
			_ = bad
			g := fr.i.prog.ImportedPackage("path/filepath").Var("ErrBadPattern")
			c, _ := fr.i.global(g)
			return tuple{[]value(nil), *c}
		}
		n := fr.i.fs.lookup(dir)
		var out []value
		if n != nil && n.dir {
			for _, name := range fr.i.fs.names(n) {
				if ok, _ := filepath.Match(base, name); ok {
					out = append(out, path.Join(dir, name))
				}
			}
		}
		return tuple{out, iface{}}
	})
	// yaml: an opaque blob that round-trips (DESIGN.md §2.3)
	reg("gopkg.in/yaml.v2.Marshal", func(fr *frame, args []value) value {
		it := args[0].(iface)
		id := len(fr.i.natives)
		snap := deepCopy(it, map[*value]*value{})
		fr.i.natives["yaml:"+strconv.Itoa(id)] = snap
		return tuple{strBytes(fmt.Sprintf("#vrt-yaml-blob %d\n", id)), iface{}}
	})
	reg("gopkg.in/yaml.v2.Unmarshal", func(fr *frame, args []value) value {
		raw := args[0].([]value)
		s, ok := mkStr(raw).(string)
		var id int
		if !ok || !strings.HasPrefix(s, "#vrt-yaml-blob ") {
			return fr.i.mkError("yaml: content not produced by this model")
		}
		fmt.Sscanf(s, "#vrt-yaml-blob %d", &id)
		snap, ok := fr.i.natives["yaml:"+strconv.Itoa(id)]
		if !ok {
			return fr.i.mkError("yaml: unknown blob")
		}
		src := snap.(iface)
		dst := args[1].(iface)
		sp, ok1 := src.v.(*value)
		dp, ok2 := dst.v.(*value)
		if !ok1 || !ok2 || !sameType(src.t, dst.t) {
			return fr.i.mkError("yaml: type mismatch")
		}
		c := deepCopy(*sp, map[*value]*value{})
		// keep unexported/sync fields of the destination (yaml:"-"): copy exported data fields only
		if ds, ok := (*dp).(structure); ok {
			cs := c.(structure)
			for i := range ds {
				if i == 0 {
					continue // embedded sync.Mutex of CollisionTable (yaml:"-")
				}
				ds[i] = cs[i]
			}
		} else {
			*dp = c
		}
		return iface{}
	})
	reg("net/http.HandleFunc", noop)
	reg("net/http.Handle", noop)
	reg(RepoModule+"/utils.GetStack", func(fr *frame, args []value) value { return "<stack>" })
	reg(RepoModule+"/utils.DiskUsage", func(fr *frame, args []value) value {
		panic(engineAbort{psInconclusive, "utils.DiskUsage not modelled"})
	})
}

func (i *interpreter) mkError(msg string) value {
	newFn := i.env.byName["errors.New"]
	return call(i, nil, 0, newFn, []value{msg})
}

// QuickLZ C code (quicklz.c) is not encoded (DESIGN.md C10). Its two entry points are
// replaced by a contract stub: compress emits a well-formed 9-byte header followed by
// an opaque token (choice "compressible": 13 bytes total) or by the raw bytes (choice
// "stored": 9+n bytes); decompress inverts exactly what compress produced.
func init() {
	reg("cgo:_Cfunc_qlz_compress", func(fr *frame, args []value) value {
		if fr.i.qlzReal {
			return qlzRealCompress(fr, args)
		}
		src := cPtrArg(args[0])
		dst := cPtrArg(args[1])
		n := int(asInt64(args[2]))
		sm := src.mem[:cap(src.mem)]
		dm := dst.mem[:cap(dst.mem)]
		if n > len(sm) {
			panic(memError("qlz_compress reads past the source buffer"))
		}
		orig := append([]value(nil), sm[:n]...)
		checkPoison(orig)
		// quick tier: the stub always reports "compressible" (what the real compressor does for
		// the repetitive bodies the harnesses use); thorough explores both outcomes
		stored := false
		if fr.i.env.Tier > 0 || fr.i.qlzBoth {
			stored = fr.i.ctx.choose(2, "qlz-compressible") == 1
		}
		total := 13
		if stored {
			total = 9 + n
		}
		if total > len(dm) {
			panic(memError("qlz_compress writes past the destination buffer"))
		}
		put := func(off int, v int) {
			for j := 0; j < 4; j++ {
				dm[off+j] = uint8(v >> (8 * uint(j)))
			}
		}
		if stored {
			dm[0] = uint8(0x46)
			put(1, total)
			put(5, n)
			copy(dm[9:], orig)
		} else {
			dm[0] = uint8(0x47)
			put(1, total)
			put(5, n)
			id := len(fr.i.natives)
			fr.i.natives["qlz:"+strconv.Itoa(id)] = orig
			put(9, id)
		}
		return uint64(total)
	})
	reg("cgo:_Cfunc_qlz_decompress", func(fr *frame, args []value) value {
		if fr.i.qlzReal {
			return qlzRealDecompress(fr, args)
		}
		src := cPtrArg(args[0])
		dst := cPtrArg(args[1])
		sm := src.mem[:cap(src.mem)]
		dm := dst.mem[:cap(dst.mem)]
		get := func(off int) int {
			v := 0
			for j := 0; j < 4; j++ {
				b, ok := sm[off+j].(uint8)
				if !ok {
					panic(engineAbort{psInconclusive, "qlz_decompress of bytes not produced by the compress stub"})
				}
				v |= int(b) << (8 * uint(j))
			}
			return v
		}
		if len(sm) < 13 {
			panic(engineAbort{psInconclusive, "qlz_decompress of bytes not produced by the compress stub"})
		}
		f, ok := sm[0].(uint8)
		if !ok {
			panic(engineAbort{psInconclusive, "qlz_decompress of symbolic header"})
		}
		n := get(5)
		var orig []value
		switch f {
		case 0x46:
			orig = sm[9 : 9+n]
		case 0x47:
			o, ok := fr.i.natives["qlz:"+strconv.Itoa(get(9))]
			if !ok {
				panic(engineAbort{psInconclusive, "qlz_decompress of an unknown token"})
			}
			orig = o.([]value)
		default:
			panic(engineAbort{psInconclusive, "qlz_decompress of bytes not produced by the compress stub"})
		}
		if len(orig) > len(dm) {
			panic(memError("qlz_decompress writes past the destination buffer"))
		}
		copy(dm, orig)
		return uint64(len(orig))
	})
}

// http.DetectContentType: net/http's init (the signature table) is not interpreted; the
// sniffer is run natively on the concrete prefix. A symbolic byte inside the sniffed prefix
// (first 512 bytes) is outside the model.
func init() {
	reg("net/http.DetectContentType", func(fr *frame, args []value) value {
		data := args[0].([]value)
		if len(data) > 512 {
			data = data[:512]
		}
		// symbolic bytes are tolerated beyond position 64 (every media signature of the sniffer is
		// shorter; only the text-vs-binary decision looks at the whole prefix): the sniffer runs
		// natively with those bytes as NUL and as 'a'; if the two answers differ both are explored
		b := make([]byte, len(data))
		b2 := make([]byte, len(data))
		symbolic := false
		for i, x := range data {
			c, ok := x.(uint8)
			if !ok {
				if _, bad := x.(poison); bad {
					panic(memError("read of freed C memory"))
				}
				if i < 64 {
					panic(engineAbort{psInconclusive, "http.DetectContentType on a symbolic byte within the first 64 bytes"})
				}
				symbolic = true
				b[i], b2[i] = 0, 'a'
				continue
			}
			b[i], b2[i] = c, c
		}
		if symbolic {
			r1, r2 := nativeDetectContentType(b), nativeDetectContentType(b2)
			if r1 != r2 {
				if fr.i.ctx.choose(2, "sniff-text-or-binary") == 1 {
					return r2
				}
			}
			return r1
		}
		return nativeDetectContentType(b)
	})
}
