// Copyright 2013 The Go Authors. All rights reserved.
// Use of this source code is governed by a BSD-style
// license that can be found in the LICENSE file.
//
// Forked from golang.org/x/tools v0.29.0 go/ssa/interp and extended to a
// symbolic interpreter (see /verif/DESIGN.md).

package interp

import (
	"bytes"
	"fmt"
	"go/types"
	"unicode/utf8"

	"golang.org/x/tools/go/ssa"
)

type value interface{}

type tuple []value

type array []value

type iface struct {
	t types.Type // never an "untyped" type
	v value
}

type structure []value

// For map, array, *array, slice, string or channel.
type iter interface {
	// next returns a Tuple (key, value, ok).
	// key and value are unaliased, e.g. copies of the sequence element.
	next() tuple
}

type closure struct {
	Fn  *ssa.Function
	Env []value
}

type bad struct{}

// symstr is a string some of whose bytes are symbolic (elements: uint8 or sv of kind Uint8).
// It is immutable.
type symstr struct{ b []value }

// nil-tolerant variant of types.Identical.
func (x array) eq(t types.Type, _y interface{}) bool {
	y := _y.(array)
	tElt := t.Underlying().(*types.Array).Elem()
	for i, xi := range x {
		if !equals(tElt, xi, y[i]) {
			return false
		}
	}
	return true
}

func (x structure) eq(t types.Type, _y interface{}) bool {
	y := _y.(structure)
	tStruct := t.Underlying().(*types.Struct)
	for i, n := 0, tStruct.NumFields(); i < n; i++ {
		if f := tStruct.Field(i); !f.Anonymous() {
			if !equals(f.Type(), x[i], y[i]) {
				return false
			}
		}
	}
	return true
}

// nil-tolerant variant of types.Identical.
func sameType(x, y types.Type) bool {
	if x == nil {
		return y == nil
	}
	return y != nil && types.Identical(x, y)
}

func (x iface) eq(t types.Type, _y interface{}) bool {
	y := _y.(iface)
	return sameType(x.t, y.t) && (x.t == nil || equals(x.t, x.v, y.v))
}

// equals returns true iff x and y are equal according to Go's
// linguistic equivalence relation for type t.
// In a well-typed program, the dynamic types of x and y are
// guaranteed equal.
func equals(t types.Type, x, y value) bool {
	x, y = forceLazy(x), forceLazy(y)
	if isSym(x) || isSym(y) {
		b := builderOf(x, y)
		tx, _ := termOf(b, x)
		ty, _ := termOf(b, y)
		return ctxOf(b).branch(b.Eq(tx, ty), "equals")
	}
	if _, ok := y.(symstr); ok {
		x, y = y, x
	}
	switch x := x.(type) {
	case symstr:
		return decideBool(strEq(x, y))
	case unsafePtr:
		return x.eq(y)
	case uptrInt:
		yy, ok := y.(uptrInt)
		return ok && yy.off == x.off && sameMem(x.mem, yy.mem)
	case bool:
		return x == y.(bool)
	case int:
		return x == y.(int)
	case int8:
		return x == y.(int8)
	case int16:
		return x == y.(int16)
	case int32:
		return x == y.(int32)
	case int64:
		return x == y.(int64)
	case uint:
		return x == y.(uint)
	case uint8:
		return x == y.(uint8)
	case uint16:
		return x == y.(uint16)
	case uint32:
		return x == y.(uint32)
	case uint64:
		return x == y.(uint64)
	case uintptr:
		yy, ok := y.(uintptr)
		return ok && x == yy
	case float32:
		return x == y.(float32)
	case float64:
		return x == y.(float64)
	case complex64:
		return x == y.(complex64)
	case complex128:
		return x == y.(complex128)
	case string:
		return x == y.(string)
	case *value:
		return x == y.(*value)
	case *mchan:
		return x == y.(*mchan)
	case structure:
		return x.eq(t, y)
	case array:
		return x.eq(t, y)
	case iface:
		return x.eq(t, y)
	}

	// Since map, func and slice don't support comparison, this
	// case is only reachable if one of x or y is literally nil
	// (handled in eqnil) or via interface{} values.
	panic(fmt.Sprintf("comparing uncomparable type %s", t))
}

// reflect.Value struct values don't have a fixed shape, since the
// payload can be a scalar or an aggregate depending on the instance.
// So store (and load) can't simply use recursion over the shape of the
// rhs value, or the lhs, to copy the value; we need the static type
// information.  (We can't make reflect.Value a new basic data type
// because its "structness" is exposed to Go programs.)

// load returns the value of type T in *addr.
func load(T types.Type, addr *value) value {
	switch T := T.Underlying().(type) {
	case *types.Struct:
		v := (*addr).(structure)
		a := make(structure, len(v))
		for i := range a {
			a[i] = load(T.Field(i).Type(), &v[i])
		}
		return a
	case *types.Array:
		v := (*addr).(array)
		a := make(array, len(v))
		for i := range a {
			a[i] = load(T.Elem(), &v[i])
		}
		return a
	default:
		v := *addr
		if _, bad := v.(poison); bad {
			panic(memError("read of freed C memory"))
		}
		return v
	}
}

// store stores value v of type T into *addr.
func store(T types.Type, addr *value, v value) {
	switch T := T.Underlying().(type) {
	case *types.Struct:
		lhs := (*addr).(structure)
		rhs := v.(structure)
		for i := range lhs {
			store(T.Field(i).Type(), &lhs[i], rhs[i])
		}
	case *types.Array:
		lhs := (*addr).(array)
		rhs := v.(array)
		for i := range lhs {
			store(T.Elem(), &lhs[i], rhs[i])
		}
	default:
		if _, bad := (*addr).(poison); bad {
			panic(memError("write to freed C memory"))
		}
		*addr = v
	}
}

// Prints in the style of built-in println.
// (More or less; in gc println is actually a compiler intrinsic and
// can distinguish println(1) from println(interface{}(1)).)
func writeValue(buf *bytes.Buffer, v value) {
	switch v := v.(type) {
	case nil, bool, int, int8, int16, int32, int64, uint, uint8, uint16, uint32, uint64, uintptr, float32, float64, complex64, complex128, string:
		fmt.Fprintf(buf, "%v", v)

	case *omap:
		buf.WriteString("map[")
		sep := ""
		if v != nil {
			for i, k := range v.keys {
				if v.dead[i] {
					continue
				}
				buf.WriteString(sep)
				sep = " "
				writeValue(buf, k)
				buf.WriteString(":")
				writeValue(buf, v.vals[i])
			}
		}
		buf.WriteString("]")

	case sv:
		fmt.Fprintf(buf, "<sym %v>", v.k)

	case symstr:
		fmt.Fprintf(buf, "<symstr len %d>", len(v.b))

	case *mchan:
		fmt.Fprintf(buf, "%p", v)


	case *value:
		if v == nil {
			buf.WriteString("<nil>")
		} else {
			fmt.Fprintf(buf, "%p", v)
		}

	case iface:
		fmt.Fprintf(buf, "(%s, ", v.t)
		writeValue(buf, v.v)
		buf.WriteString(")")

	case structure:
		buf.WriteString("{")
		for i, e := range v {
			if i > 0 {
				buf.WriteString(" ")
			}
			writeValue(buf, e)
		}
		buf.WriteString("}")

	case array:
		buf.WriteString("[")
		for i, e := range v {
			if i > 0 {
				buf.WriteString(" ")
			}
			writeValue(buf, e)
		}
		buf.WriteString("]")

	case []value:
		buf.WriteString("[")
		for i, e := range v {
			if i > 0 {
				buf.WriteString(" ")
			}
			writeValue(buf, e)
		}
		buf.WriteString("]")

	case *ssa.Function, *ssa.Builtin, *closure:
		fmt.Fprintf(buf, "%p", v) // (an address)

	case tuple:
		// Unreachable in well-formed Go programs
		buf.WriteString("(")
		for i, e := range v {
			if i > 0 {
				buf.WriteString(", ")
			}
			writeValue(buf, e)
		}
		buf.WriteString(")")

	default:
		fmt.Fprintf(buf, "<%T>", v)
	}
}

// Implements printing of Go values in the style of built-in println.
func toString(v value) string {
	var b bytes.Buffer
	writeValue(&b, v)
	return b.String()
}

// ------------------------------------------------------------------------
// Iterators

type stringIter struct {
	s string
	i int
}

func (it *stringIter) next() tuple {
	okv := make(tuple, 3)
	if it.i >= len(it.s) {
		okv[0] = false
		return okv
	}
	ch, n := utf8.DecodeRuneInString(it.s[it.i:])
	okv[0] = true
	okv[1] = it.i
	okv[2] = ch
	it.i += n
	return okv
}

type omapIter struct {
	m *omap
	i int
}

func (it *omapIter) next() tuple {
	if it.m != nil {
		for it.i < len(it.m.keys) {
			i := it.i
			it.i++
			if !it.m.dead[i] {
				return tuple{true, it.m.keys[i], it.m.vals[i]}
			}
		}
	}
	return tuple{false, nil, nil}
}
