package interp

import "net/http"

func nativeDetectContentType(b []byte) string { return http.DetectContentType(b) }
