package interp

// Insertion-ordered maps (deterministic iteration, required for replay-based
// exploration) with support for symbolic keys (association-list semantics).

import (
	"go/types"
)

type omap struct {
	kt    types.Type
	keys  []value
	vals  []value
	dead  []bool
	idx   map[interface{}]int // concrete basic keys -> slot
	n     int
	nsym  int // number of live entries with non-indexable keys
	basic bool
}

func makeMap(kt types.Type, reserve int64) value {
	m := &omap{kt: kt, idx: make(map[interface{}]int)}
	switch kt.Underlying().(type) {
	case *types.Basic, *types.Pointer, *types.Chan:
		m.basic = true
	}
	return m
}

// indexable reports whether k can be used directly as a Go map key.
func (m *omap) indexable(k value) bool {
	if !m.basic {
		return false
	}
	switch k.(type) {
	case sv, symstr:
		return false
	}
	return true
}

// find returns the slot of key k or -1. Symbolic comparisons fork the path.
func (m *omap) find(k value) int {
	if m == nil {
		return -1
	}
	if m.indexable(k) {
		if i, ok := m.idx[k]; ok {
			return i
		}
		if m.nsym == 0 {
			return -1
		}
		// compare with non-indexable entries only
		for i, ek := range m.keys {
			if m.dead[i] || m.indexable(ek) {
				continue
			}
			if equals(m.kt, ek, k) {
				return i
			}
		}
		return -1
	}
	for i, ek := range m.keys {
		if m.dead[i] {
			continue
		}
		if equals(m.kt, ek, k) {
			return i
		}
	}
	return -1
}

func (m *omap) lookup(k value) (value, bool) {
	i := m.find(k)
	if i < 0 {
		return nil, false
	}
	return m.vals[i], true
}

func (m *omap) insert(k, v value) {
	if m == nil {
		panic(rtError("assignment to entry in nil map"))
	}
	if i := m.find(k); i >= 0 {
		m.vals[i] = v
		return
	}
	m.keys = append(m.keys, k)
	m.vals = append(m.vals, v)
	m.dead = append(m.dead, false)
	if m.indexable(k) {
		m.idx[k] = len(m.keys) - 1
	} else {
		m.nsym++
	}
	m.n++
}

func (m *omap) delete(k value) {
	if m == nil {
		return
	}
	i := m.find(k)
	if i < 0 {
		return
	}
	if m.indexable(m.keys[i]) {
		delete(m.idx, m.keys[i])
	} else {
		m.nsym--
	}
	m.dead[i] = true
	m.vals[i] = nil
	m.n--
	// compact when mostly dead
	if len(m.keys) > 32 && m.n < len(m.keys)/2 {
		var ks, vs []value
		m.idx = make(map[interface{}]int)
		for j, kk := range m.keys {
			if m.dead[j] {
				continue
			}
			ks = append(ks, kk)
			vs = append(vs, m.vals[j])
			if m.indexable(kk) {
				m.idx[kk] = len(ks) - 1
			}
		}
		m.keys, m.vals, m.dead = ks, vs, make([]bool, len(ks))
	}
}

func (m *omap) len() int {
	if m == nil {
		return 0
	}
	return m.n
}
