package interp

// In-memory file system model with an event log; the os package entry points
// used by the code under test are intercepted and served from here.

import (
	"fmt"
	"go/types"
	"path"
	"sort"
	"strings"

	"golang.org/x/tools/go/ssa"
)

type modelFS struct {
	nextTmp  int
	root     *fsNode
	log      []fsEvent
	nextIno  int
	onEvent  func(ev fsEvent) // crash hook
	readOnly bool
}

type fsNode struct {
	name  string
	dir   bool
	kids  map[string]*fsNode
	data  []value
	ino   int
	mode  uint32
	mtime int64
}

type fsEvent struct {
	Op   string // create, write, truncate, rename, remove, mkdir
	Path string
	Off  int64
	Len  int64
	Aux  string
}

type mfile struct {
	node   *fsNode
	path   string
	off    int64
	flags  int
	closed bool
	dirPos int
}

type mstat struct {
	name  string
	size  int64
	dir   bool
	mode  uint32
	mtime int64
}

func newModelFS() *modelFS {
	fs := &modelFS{}
	fs.root = &fsNode{name: "/", dir: true, kids: map[string]*fsNode{}, mode: 0755}
	return fs
}

func (fs *modelFS) tempDir() string {
	fs.nextTmp++
	p := fmt.Sprintf("/m/t%d", fs.nextTmp)
	fs.mkdirAll(p)
	return p
}

func clean(p string) string {
	if !strings.HasPrefix(p, "/") {
		p = "/" + p
	}
	return path.Clean(p)
}

func (fs *modelFS) lookup(p string) *fsNode {
	p = clean(p)
	n := fs.root
	if p == "/" {
		return n
	}
	for _, part := range strings.Split(p[1:], "/") {
		if n == nil || !n.dir {
			return nil
		}
		n = n.kids[part]
	}
	return n
}

func (fs *modelFS) parent(p string) (*fsNode, string) {
	p = clean(p)
	dir, base := path.Split(p)
	return fs.lookup(dir), base
}

func (fs *modelFS) event(ev fsEvent) {
	fs.log = append(fs.log, ev)
	if fs.onEvent != nil {
		fs.onEvent(ev)
	}
}

func (fs *modelFS) mkdirAll(p string) bool {
	p = clean(p)
	n := fs.root
	if p == "/" {
		return true
	}
	cur := ""
	for _, part := range strings.Split(p[1:], "/") {
		cur += "/" + part
		k := n.kids[part]
		if k == nil {
			fs.nextIno++
			k = &fsNode{name: part, dir: true, kids: map[string]*fsNode{}, mode: 0755, ino: fs.nextIno}
			n.kids[part] = k
			fs.event(fsEvent{Op: "mkdir", Path: cur})
		} else if !k.dir {
			return false
		}
		n = k
	}
	return true
}

func (fs *modelFS) names(n *fsNode) []string {
	var r []string
	for k := range n.kids {
		r = append(r, k)
	}
	sort.Strings(r)
	return r
}

// snapshot deep-copies the tree (used by crash harnesses).
func (fs *modelFS) snapshotNode(n *fsNode) *fsNode {
	c := &fsNode{name: n.name, dir: n.dir, ino: n.ino, mode: n.mode, mtime: n.mtime}
	if n.dir {
		c.kids = map[string]*fsNode{}
		for k, v := range n.kids {
			c.kids[k] = fs.snapshotNode(v)
		}
	} else {
		c.data = append([]value(nil), n.data...)
	}
	return c
}

// ------------------------------------------------------------------ errors

const (
	eNOENT  = 2
	eEXIST  = 17
	eNOTDIR = 20
	eISDIR  = 21
	eINVAL  = 22
	eNOTEMPTY = 39
	eBADF   = 9
)

var errnoText = map[int]string{
	eNOENT: "no such file or directory", eEXIST: "file exists", eNOTDIR: "not a directory",
	eISDIR: "is a directory", eINVAL: "invalid argument", eNOTEMPTY: "directory not empty", eBADF: "bad file descriptor",
}

func (i *interpreter) namedType(pkg, name string) types.Type {
	p := i.prog.ImportedPackage(pkg)
	if p == nil {
		panic(engineAbort{psEngineError, "package not loaded: " + pkg})
	}
	t := p.Type(name)
	if t == nil {
		panic(engineAbort{psEngineError, "type not found: " + pkg + "." + name})
	}
	return t.Type()
}

func (i *interpreter) pathError(op, p string, errno int) value {
	pe := i.namedType("io/fs", "PathError")
	en := i.namedType("syscall", "Errno")
	var cell value = structure{op, p, iface{t: en, v: uintptr(errno)}}
	return iface{t: types.NewPointer(pe), v: &cell}
}

func (i *interpreter) ioEOF() value {
	g := i.prog.ImportedPackage("io").Var("EOF")
	c, _ := i.global(g)
	return *c
}

func (i *interpreter) osErrClosed(op, p string) value {
	return i.pathError(op, p, eBADF)
}

// errnoOf digs the errno out of an error value (PathError/LinkError/SyscallError/Errno).
func errnoOf(v value) (int, bool) {
	for depth := 0; depth < 5; depth++ {
		itf, ok := v.(iface)
		if !ok || itf.t == nil {
			return 0, false
		}
		ts := itf.t.String()
		switch {
		case ts == "syscall.Errno":
			return int(asInt64(itf.v)), true
		case ts == "*io/fs.PathError" || ts == "*os.PathError":
			s := (*itf.v.(*value)).(structure)
			v = s[2]
		case ts == "*os.LinkError":
			s := (*itf.v.(*value)).(structure)
			v = s[3]
		case ts == "*os.SyscallError":
			s := (*itf.v.(*value)).(structure)
			v = s[1]
		default:
			return 0, false
		}
	}
	return 0, false
}

// ------------------------------------------------------------------ file values

func (i *interpreter) fileValue(f *mfile) value {
	var cell value = f
	return &cell
}

func fileOf(v value) *mfile {
	p, ok := v.(*value)
	if !ok || p == nil {
		panic(rtError("invalid memory address or nil pointer dereference (nil *os.File)"))
	}
	f, ok := (*p).(*mfile)
	if !ok {
		panic(engineAbort{psEngineError, "os.File value not created by the model"})
	}
	return f
}

func (i *interpreter) statValue(st *mstat) value {
	t := types.NewPointer(i.namedType("os", "fileStat"))
	var cell value = st
	return iface{t: t, v: &cell}
}

func statOf(v value) *mstat {
	return (*v.(*value)).(*mstat)
}

func nodeStat(n *fsNode) *mstat {
	return &mstat{name: n.name, size: int64(len(n.data)), dir: n.dir, mode: n.mode, mtime: n.mtime}
}

const (
	oWRONLY = 0x1
	oRDWR   = 0x2
	oAPPEND = 0x400
	oCREATE = 0x40
	oEXCL   = 0x80
	oTRUNC  = 0x200
)

func (i *interpreter) openFile(name string, flag int, perm uint32) (value, value) {
	fs := i.fs
	p := clean(name)
	n := fs.lookup(p)
	if n == nil {
		if flag&oCREATE == 0 {
			return (*value)(nil), i.pathError("open", name, eNOENT)
		}
		par, base := fs.parent(p)
		if par == nil || !par.dir {
			return (*value)(nil), i.pathError("open", name, eNOENT)
		}
		fs.nextIno++
		n = &fsNode{name: base, mode: perm & 0777, ino: fs.nextIno, mtime: i.sched.clock}
		par.kids[base] = n
		fs.event(fsEvent{Op: "create", Path: p})
	} else {
		if flag&oCREATE != 0 && flag&oEXCL != 0 {
			return (*value)(nil), i.pathError("open", name, eEXIST)
		}
		if n.dir && flag&(oWRONLY|oRDWR) != 0 {
			return (*value)(nil), i.pathError("open", name, eISDIR)
		}
		if flag&oTRUNC != 0 && !n.dir && len(n.data) > 0 {
			n.data = nil
			fs.event(fsEvent{Op: "truncate", Path: p, Len: 0})
		}
	}
	return i.fileValue(&mfile{node: n, path: p, flags: flag}), iface{}
}

func errTuple(v, err value) value { return tuple{v, err} }

func init() {
	reg("os.OpenFile", func(fr *frame, args []value) value {
		f, err := fr.i.openFile(args[0].(string), int(asInt64(args[1])), uint32(asInt64(args[2])))
		return tuple{f, err}
	})
	reg("os.Open", func(fr *frame, args []value) value {
		f, err := fr.i.openFile(args[0].(string), 0, 0)
		return tuple{f, err}
	})
	reg("os.Create", func(fr *frame, args []value) value {
		f, err := fr.i.openFile(args[0].(string), oRDWR|oCREATE|oTRUNC, 0666)
		return tuple{f, err}
	})
	stat := func(fr *frame, args []value) value {
		n := fr.i.fs.lookup(args[0].(string))
		if n == nil {
			return tuple{iface{}, fr.i.pathError("stat", args[0].(string), eNOENT)}
		}
		return tuple{fr.i.statValue(nodeStat(n)), iface{}}
	}
	reg("os.Stat", stat)
	reg("os.Lstat", stat)
	reg("os.Getwd", func(fr *frame, args []value) value { return tuple{"/", iface{}} })
	reg("path/filepath.EvalSymlinks", func(fr *frame, args []value) value {
		if fr.i.fs.lookup(args[0].(string)) == nil {
			return tuple{"", fr.i.pathError("lstat", args[0].(string), eNOENT)}
		}
		return tuple{clean(args[0].(string)), iface{}}
	})
	reg("os.MkdirAll", func(fr *frame, args []value) value {
		if !fr.i.fs.mkdirAll(args[0].(string)) {
			return fr.i.pathError("mkdir", args[0].(string), eNOTDIR)
		}
		return iface{}
	})
	reg("os.Mkdir", func(fr *frame, args []value) value {
		fs := fr.i.fs
		p := clean(args[0].(string))
		if fs.lookup(p) != nil {
			return fr.i.pathError("mkdir", args[0].(string), eEXIST)
		}
		par, base := fs.parent(p)
		if par == nil || !par.dir {
			return fr.i.pathError("mkdir", args[0].(string), eNOENT)
		}
		fs.nextIno++
		par.kids[base] = &fsNode{name: base, dir: true, kids: map[string]*fsNode{}, mode: 0755, ino: fs.nextIno}
		fs.event(fsEvent{Op: "mkdir", Path: p})
		return iface{}
	})
	reg("os.Remove", func(fr *frame, args []value) value {
		fs := fr.i.fs
		p := clean(args[0].(string))
		n := fs.lookup(p)
		if n == nil {
			return fr.i.pathError("remove", args[0].(string), eNOENT)
		}
		if n.dir && len(n.kids) > 0 {
			return fr.i.pathError("remove", args[0].(string), eNOTEMPTY)
		}
		par, base := fs.parent(p)
		delete(par.kids, base)
		fs.event(fsEvent{Op: "remove", Path: p})
		return iface{}
	})
	reg("os.RemoveAll", func(fr *frame, args []value) value {
		fs := fr.i.fs
		p := clean(args[0].(string))
		n := fs.lookup(p)
		if n == nil {
			return iface{}
		}
		par, base := fs.parent(p)
		delete(par.kids, base)
		fs.event(fsEvent{Op: "removeall", Path: p})
		return iface{}
	})
	reg("os.Rename", func(fr *frame, args []value) value {
		fs := fr.i.fs
		op, np := clean(args[0].(string)), clean(args[1].(string))
		n := fs.lookup(op)
		if n == nil {
			return fr.i.pathError("rename", args[0].(string), eNOENT)
		}
		npar, nbase := fs.parent(np)
		if npar == nil || !npar.dir {
			return fr.i.pathError("rename", args[1].(string), eNOENT)
		}
		opar, obase := fs.parent(op)
		delete(opar.kids, obase)
		n.name = nbase
		npar.kids[nbase] = n
		fs.event(fsEvent{Op: "rename", Path: op, Aux: np})
		return iface{}
	})
	reg("os.Truncate", func(fr *frame, args []value) value {
		fs := fr.i.fs
		p := clean(args[0].(string))
		n := fs.lookup(p)
		if n == nil {
			return fr.i.pathError("truncate", args[0].(string), eNOENT)
		}
		fr.i.truncateNode(n, p, asInt64(args[1]))
		return iface{}
	})
	reg("os.IsNotExist", func(fr *frame, args []value) value {
		e, ok := errnoOf(args[0])
		return ok && e == eNOENT
	})
	reg("os.IsExist", func(fr *frame, args []value) value {
		e, ok := errnoOf(args[0])
		return ok && (e == eEXIST || e == eNOTEMPTY)
	})
	reg("os.ReadFile", func(fr *frame, args []value) value {
		n := fr.i.fs.lookup(args[0].(string))
		if n == nil {
			return tuple{[]value(nil), fr.i.pathError("open", args[0].(string), eNOENT)}
		}
		if n.dir {
			return tuple{[]value(nil), fr.i.pathError("read", args[0].(string), eISDIR)}
		}
		c := make([]value, len(n.data))
		copy(c, n.data)
		return tuple{c, iface{}}
	})
	reg("os.WriteFile", func(fr *frame, args []value) value {
		f, err := fr.i.openFile(args[0].(string), oWRONLY|oCREATE|oTRUNC, uint32(asInt64(args[2])))
		if err.(iface).t != nil {
			return err
		}
		fr.i.writeFile(fileOf(f), args[1].([]value))
		return iface{}
	})
	reg("os.ReadDir", func(fr *frame, args []value) value {
		panic(engineAbort{psInconclusive, "os.ReadDir not modelled"})
	})
	reg("(syscall.Errno).Error", func(fr *frame, args []value) value {
		e := int(asInt64(args[0]))
		if s, ok := errnoText[e]; ok {
			return s
		}
		return fmt.Sprintf("errno %d", e)
	})
	reg("(syscall.Errno).Is", func(fr *frame, args []value) value { return false })

	// *os.File methods
	reg("(*os.File).Name", func(fr *frame, args []value) value { return fileOf(args[0]).path })
	reg("(*os.File).Close", func(fr *frame, args []value) value {
		f := fileOf(args[0])
		if f.closed {
			return fr.i.osErrClosed("close", f.path)
		}
		f.closed = true
		return iface{}
	})
	reg("(*os.File).Sync", func(fr *frame, args []value) value { return iface{} })
	reg("(*os.File).Fd", func(fr *frame, args []value) value { return uintptr(3) })
	reg("(*os.File).Write", func(fr *frame, args []value) value {
		f := fileOf(args[0])
		if f.closed {
			return tuple{0, fr.i.osErrClosed("write", f.path)}
		}
		b := args[1].([]value)
		checkPoison(b)
		fr.i.writeFile(f, b)
		return tuple{len(b), iface{}}
	})
	reg("(*os.File).WriteString", func(fr *frame, args []value) value {
		f := fileOf(args[0])
		if f.closed {
			return tuple{0, fr.i.osErrClosed("write", f.path)}
		}
		b := strBytes(args[1])
		fr.i.writeFile(f, b)
		return tuple{len(b), iface{}}
	})
	reg("(*os.File).WriteAt", func(fr *frame, args []value) value {
		f := fileOf(args[0])
		b := args[1].([]value)
		checkPoison(b)
		fr.i.writeAt(f, b, asInt64(args[2]))
		return tuple{len(b), iface{}}
	})
	reg("(*os.File).Read", func(fr *frame, args []value) value {
		f := fileOf(args[0])
		if f.closed {
			return tuple{0, fr.i.osErrClosed("read", f.path)}
		}
		if f.node.dir {
			return tuple{0, fr.i.pathError("read", f.path, eISDIR)}
		}
		b := args[1].([]value)
		if len(b) == 0 {
			return tuple{0, iface{}}
		}
		if f.off >= int64(len(f.node.data)) {
			return tuple{0, fr.i.ioEOF()}
		}
		n := copy(b, f.node.data[f.off:])
		f.off += int64(n)
		return tuple{n, iface{}}
	})
	reg("(*os.File).ReadAt", func(fr *frame, args []value) value {
		f := fileOf(args[0])
		if f.closed {
			return tuple{0, fr.i.osErrClosed("read", f.path)}
		}
		b := args[1].([]value)
		off := asInt64(args[2])
		if off < 0 {
			return tuple{0, fr.i.pathError("readat", f.path, eINVAL)}
		}
		if off >= int64(len(f.node.data)) {
			if len(b) == 0 {
				return tuple{0, iface{}}
			}
			return tuple{0, fr.i.ioEOF()}
		}
		n := copy(b, f.node.data[off:])
		if n < len(b) {
			return tuple{n, fr.i.ioEOF()}
		}
		return tuple{n, iface{}}
	})
	reg("(*os.File).Seek", func(fr *frame, args []value) value {
		f := fileOf(args[0])
		if f.closed {
			return tuple{int64(0), fr.i.osErrClosed("seek", f.path)}
		}
		off := asInt64(args[1])
		var base int64
		switch asInt64(args[2]) {
		case 0:
		case 1:
			base = f.off
		case 2:
			base = int64(len(f.node.data))
		}
		if base+off < 0 {
			return tuple{int64(0), fr.i.pathError("seek", f.path, eINVAL)}
		}
		f.off = base + off
		return tuple{f.off, iface{}}
	})
	reg("(*os.File).Stat", func(fr *frame, args []value) value {
		f := fileOf(args[0])
		if f.closed {
			return tuple{iface{}, fr.i.osErrClosed("stat", f.path)}
		}
		return tuple{fr.i.statValue(nodeStat(f.node)), iface{}}
	})
	reg("(*os.File).Truncate", func(fr *frame, args []value) value {
		f := fileOf(args[0])
		fr.i.truncateNode(f.node, f.path, asInt64(args[1]))
		return iface{}
	})
	reg("(*os.File).Readdirnames", func(fr *frame, args []value) value {
		f := fileOf(args[0])
		if !f.node.dir {
			return tuple{[]value(nil), fr.i.pathError("readdirent", f.path, eNOTDIR)}
		}
		names := fr.i.fs.names(f.node)
		n := int(asInt64(args[1]))
		rest := names[f.dirPos:]
		if n > 0 && len(rest) > n {
			rest = rest[:n]
		}
		f.dirPos += len(rest)
		var r []value
		for _, s := range rest {
			r = append(r, s)
		}
		if n > 0 && len(rest) == 0 {
			return tuple{r, fr.i.ioEOF()}
		}
		return tuple{r, iface{}}
	})
	reg("(*os.File).Readdir", func(fr *frame, args []value) value {
		f := fileOf(args[0])
		if !f.node.dir {
			return tuple{[]value(nil), fr.i.pathError("readdirent", f.path, eNOTDIR)}
		}
		names := fr.i.fs.names(f.node)
		n := int(asInt64(args[1]))
		rest := names[f.dirPos:]
		if n > 0 && len(rest) > n {
			rest = rest[:n]
		}
		f.dirPos += len(rest)
		var r []value
		for _, s := range rest {
			r = append(r, fr.i.statValue(nodeStat(f.node.kids[s])))
		}
		if n > 0 && len(rest) == 0 {
			return tuple{r, fr.i.ioEOF()}
		}
		return tuple{r, iface{}}
	})

	// os.FileInfo (*os.fileStat)
	reg("(*os.fileStat).Size", func(fr *frame, args []value) value { return statOf(args[0]).size })
	reg("(*os.fileStat).IsDir", func(fr *frame, args []value) value { return statOf(args[0]).dir })
	reg("(*os.fileStat).Name", func(fr *frame, args []value) value { return statOf(args[0]).name })
	reg("(*os.fileStat).Mode", func(fr *frame, args []value) value {
		st := statOf(args[0])
		m := st.mode
		if st.dir {
			m |= 1 << 31
		}
		return m
	})
	reg("(*os.fileStat).ModTime", func(fr *frame, args []value) value { return fr.i.timeValue(statOf(args[0]).mtime) })
	reg("(*os.fileStat).Sys", func(fr *frame, args []value) value { return iface{} })

	reg("syscall.Statfs", func(fr *frame, args []value) value { return iface{} })
}

func (i *interpreter) truncateNode(n *fsNode, p string, sz int64) {
	if sz < 0 {
		sz = 0
	}
	if sz <= int64(len(n.data)) {
		n.data = n.data[:sz:sz]
	} else {
		for int64(len(n.data)) < sz {
			n.data = append(n.data, uint8(0))
		}
	}
	i.fs.event(fsEvent{Op: "truncate", Path: p, Len: sz})
}

func (i *interpreter) writeFile(f *mfile, b []value) {
	if f.flags&oAPPEND != 0 {
		f.off = int64(len(f.node.data))
	}
	i.writeAt(f, b, f.off)
	f.off += int64(len(b))
}

func (i *interpreter) writeAt(f *mfile, b []value, off int64) {
	n := f.node
	end := off + int64(len(b))
	if end > int64(len(n.data)) {
		nd := make([]value, end)
		copy(nd, n.data)
		for k := len(n.data); k < int(end); k++ {
			nd[k] = uint8(0)
		}
		n.data = nd
	}
	copy(n.data[off:end], b)
	n.mtime = i.sched.clock
	i.fs.event(fsEvent{Op: "write", Path: f.path, Off: off, Len: int64(len(b))})
}

var _ = ssa.NaiveForm
