package interp

// Operations on the engine's non-standard value kinds: strings with symbolic
// bytes, uintptr handles, unsafe pointers, and conversions among them.

import (
	"fmt"
	"go/token"
	"go/types"

	"golang.org/x/tools/go/ssa"
)

func isStr(v value) bool {
	switch v.(type) {
	case string, symstr:
		return true
	}
	return false
}

func specialBinop(op token.Token, t types.Type, x, y value) (value, bool) {
	_, xs := x.(symstr)
	_, ys := y.(symstr)
	if xs || ys {
		switch op {
		case token.ADD:
			xb, yb := strBytes(x), strBytes(y)
			r := make([]value, 0, len(xb)+len(yb))
			r = append(r, xb...)
			r = append(r, yb...)
			return symstr{r}, true
		case token.EQL:
			return strEq(x, y), true
		case token.NEQ:
			return boolNot(strEq(x, y)), true
		case token.LSS:
			return strLess(x, y), true
		case token.GTR:
			return strLess(y, x), true
		case token.LEQ:
			return boolNot(strLess(y, x)), true
		case token.GEQ:
			return boolNot(strLess(x, y)), true
		}
		panic(engineAbort{psEngineError, "bad string binop"})
	}
	xu, xIsU := x.(uptrInt)
	yu, yIsU := y.(uptrInt)
	if xIsU || yIsU {
		switch op {
		case token.ADD:
			if xIsU && !yIsU {
				xu.off += int(asInt64(y))
				return xu, true
			}
			if yIsU && !xIsU {
				yu.off += int(asInt64(x))
				return yu, true
			}
		case token.SUB:
			if xIsU && !yIsU {
				xu.off -= int(asInt64(y))
				return xu, true
			}
			if xIsU && yIsU && sameMem(xu.mem, yu.mem) {
				return uintptr(xu.off - yu.off), true
			}
		case token.EQL, token.NEQ:
			eq := false
			if xIsU && yIsU {
				eq = sameMem(xu.mem, yu.mem) && xu.off == yu.off
			}
			// a handle never equals a plain integer (the only plain value compared is 0)
			return eq == (op == token.EQL), true
		case token.REM, token.AND:
			// alignment tests on a handle: objects are modelled as 16-byte aligned
			if xIsU && !yIsU {
				if op == token.REM {
					return uintptr(uint64(xu.off) % uint64(asInt64(y))), true
				}
				return uintptr(uint64(xu.off) & uint64(asInt64(y))), true
			}
		}
		panic(engineAbort{psInconclusive, fmt.Sprintf("unsupported arithmetic on pointer-derived uintptr: %s", op)})
	}
	if xp, ok := x.(unsafePtr); ok {
		switch op {
		case token.EQL:
			return xp.eq(y), true
		case token.NEQ:
			return !xp.eq(y), true
		}
	}
	switch xp := x.(type) {
	case wordPtr:
		yp, ok := y.(wordPtr)
		eq := ok && sameMem(xp.mem, yp.mem)
		if !ok {
			if p, isP := y.(*value); isP && p == nil {
				eq = false
			}
		}
		if op == token.EQL {
			return eq, true
		}
		if op == token.NEQ {
			return !eq, true
		}
	case hdrView:
		if op == token.EQL {
			return false, true
		}
		if op == token.NEQ {
			return true, true
		}
	}
	return nil, false
}

func checkPoison(vs []value) {
	for _, v := range vs {
		if _, ok := v.(poison); ok {
			panic(memError("read of freed C memory"))
		}
	}
}

func appendValues(fr *frame, fn *ssa.Builtin, dst, src []value) value {
	// elements of aggregate type must be copied (value semantics)
	if len(src) > 0 {
		switch src[0].(type) {
		case structure, array:
			et := fn.Type().(*types.Signature).Params().At(0).Type().Underlying().(*types.Slice).Elem()
			for i := range src {
				dst = append(dst, load(et, &src[i]))
			}
			return dst
		}
	}
	return append(dst, src...)
}

func copyValues(fr *frame, fn *ssa.Builtin, dst, src []value) value {
	n := len(dst)
	if len(src) < n {
		n = len(src)
	}
	if n > 0 {
		switch src[0].(type) {
		case structure, array:
			et := fn.Type().(*types.Signature).Params().At(0).Type().Underlying().(*types.Slice).Elem()
			tmp := make([]value, n)
			for i := 0; i < n; i++ {
				tmp[i] = load(et, &src[i])
			}
			for i := 0; i < n; i++ {
				store(et, &dst[i], tmp[i])
			}
			return n
		}
	}
	return copy(dst, src)
}

func basicKindOf(t types.Type) (types.BasicKind, bool) {
	if b, ok := t.Underlying().(*types.Basic); ok {
		return b.Kind(), true
	}
	return 0, false
}

func isIntKind(k types.BasicKind) bool {
	switch k {
	case types.Int, types.Int8, types.Int16, types.Int32, types.Int64,
		types.Uint, types.Uint8, types.Uint16, types.Uint32, types.Uint64, types.Uintptr:
		return true
	}
	return false
}

func isNamed(t types.Type, pkg, name string) bool {
	n, ok := types.Unalias(t).(*types.Named)
	if !ok {
		return false
	}
	o := n.Obj()
	return o.Name() == name && o.Pkg() != nil && o.Pkg().Path() == pkg
}

// convSpecial handles conversions involving symbolic values, symbolic strings
// and unsafe pointers. ok=false means "use the ordinary concrete conversion".
func convSpecial(t_dst, t_src types.Type, ut_dst, ut_src types.Type, x value) (value, bool) {
	dk, dstBasic := basicKindOf(t_dst)
	sk, srcBasic := basicKindOf(t_src)
	// symbolic integer source
	if s, ok := x.(sv); ok {
		if dstBasic && isIntKind(dk) {
			return symConvInt(s, dk), true
		}
		if dstBasic && dk == types.String {
			r := concInt(s, "rune->string")
			return string(rune(r)), true
		}
		if dstBasic && (dk == types.Float32 || dk == types.Float64) {
			// floats are not encoded; fork over the integer's values (bounded by maxConc)
			r := concInt(s, "int->float")
			if dk == types.Float32 {
				if kindSigned(s.k) {
					return float32(r), true
				}
				return float32(uint64(r)), true
			}
			if kindSigned(s.k) {
				return float64(r), true
			}
			return float64(uint64(r)), true
		}
		panic(engineAbort{psInconclusive, fmt.Sprintf("unsupported conversion of symbolic %v to %v", s.k, t_dst)})
	}
	// string sources
	if srcBasic && sk == types.String || srcBasic && sk == types.UntypedString {
		switch d := ut_dst.(type) {
		case *types.Slice:
			if ek, ok := basicKindOf(d.Elem()); ok && ek == types.Byte {
				b := strBytes(x)
				if _, isS := x.(symstr); isS {
					c := make([]value, len(b))
					copy(c, b)
					return c, true
				}
				return b, true
			}
			if _, isS := x.(symstr); isS {
				panic(engineAbort{psInconclusive, "[]rune of a string with symbolic bytes"})
			}
		case *types.Basic:
			if d.Kind() == types.String {
				return x, true
			}
		}
		return nil, false
	}
	// pointer -> unsafe.Pointer (the precise form is produced in visitInstr, which
	// can see the defining IndexAddr; this is the fall-back)
	if _, ok := ut_src.(*types.Pointer); ok && dstBasic && dk == types.UnsafePointer {
		return ptrToUnsafe(x, mustDeref(t_src)), true
	}
	// unsafe.Pointer -> ...
	if srcBasic && sk == types.UnsafePointer {
		p, ok := x.(unsafePtr)
		if !ok {
			panic(engineAbort{psEngineError, fmt.Sprintf("unsafe.Pointer value of type %T", x)})
		}
		if dstBasic && dk == types.Uintptr {
			if p.isNil() {
				return uintptr(0), true
			}
			if p.mem != nil {
				return uptrInt{mem: p.mem[:cap(p.mem)], off: 0, cobj: p.cobj}, true
			}
			panic(engineAbort{psInconclusive, "uintptr of a pointer to a non-byte variable"})
		}
		if dstBasic && dk == types.UnsafePointer {
			return p, true
		}
		if pt, ok := ut_dst.(*types.Pointer); ok {
			return unsafeToPtr(p, pt.Elem(), t_dst), true
		}
	}
	// uintptr -> unsafe.Pointer
	if dstBasic && dk == types.UnsafePointer && srcBasic && sk == types.Uintptr {
		switch u := x.(type) {
		case uptrInt:
			full := u.mem[:cap(u.mem)]
			if u.off < 0 || u.off > len(full) {
				panic(memError("pointer arithmetic leaves the object"))
			}
			return unsafePtr{mem: full[u.off:], cobj: u.cobj}, true
		case uintptr:
			if u == 0 {
				return unsafePtr{}, true
			}
		}
		panic(engineAbort{psInconclusive, "unsafe.Pointer from a plain integer"})
	}
	if u, ok := x.(uptrInt); ok {
		if dstBasic && (dk == types.Uintptr || dk == types.Uint64 || dk == types.Uint) {
			return u, true
		}
		panic(engineAbort{psInconclusive, "conversion of pointer-derived uintptr to " + t_dst.String()})
	}
	return nil, false
}

func ptrToUnsafe(x value, elem types.Type) value {
	switch p := x.(type) {
	case *value:
		if p == nil {
			return unsafePtr{}
		}
		return unsafePtr{cell: p, ct: elem}
	case wordPtr:
		return unsafePtr{mem: p.mem}
	case hdrView:
		return unsafePtr{cell: p.cell}
	case unsafePtr:
		return p
	}
	panic(engineAbort{psInconclusive, fmt.Sprintf("unsafe.Pointer of %T", x)})
}

func unsafeToPtr(p unsafePtr, elem types.Type, t_dst types.Type) value {
	if p.isNil() {
		return zero(t_dst)
	}
	if p.cell != nil {
		if isNamed(elem, "reflect", "SliceHeader") {
			return hdrView{cell: p.cell, st: &hdrState{}}
		}
		if p.ct != nil && types.Identical(p.ct, elem) {
			return p.cell
		}
		// pointer to an array/struct variable reinterpreted: not modelled
		panic(engineAbort{psInconclusive, fmt.Sprintf("reinterpretation of *%v as *%v", p.ct, elem)})
	}
	if k, ok := basicKindOf(elem); ok && isIntKind(k) {
		return wordPtr{mem: p.mem, bytes: kindWidth(k) / 8}
	}
	if st, ok := elem.Underlying().(*types.Struct); ok && st.NumFields() == 0 {
		return wordPtr{mem: p.mem, bytes: 0}
	}
	panic(engineAbort{psInconclusive, fmt.Sprintf("byte memory reinterpreted as *%v", elem)})
}

func (w wordPtr) loadTyped(t types.Type) value {
	k, ok := basicKindOf(t)
	if !ok || !isIntKind(k) {
		panic(engineAbort{psInconclusive, "typed load through reinterpreted pointer: " + t.String()})
	}
	return w.load(k)
}
