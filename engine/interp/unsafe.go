package interp

// Model of the unsafe idioms used by the code under test (see DESIGN.md §2.2):
// pointers into byte memory, uintptr handles, reflect.SliceHeader views, and
// C allocations with use-after-free / double-free detection.

import (
	"fmt"
	"go/types"
)

// poison marks a byte of freed C memory.
type poison struct{}

// memError is a memory-safety violation detected by the engine.
type memErrorT struct{ msg string }

func memError(msg string) engineAbort {
	return engineAbort{psViolation, "memory safety: " + msg}
}

// unsafePtr is an unsafe.Pointer value.
type unsafePtr struct {
	cell *value  // pointer to an ordinary variable (slice/struct variable), or nil
	ct   types.Type // static type of *cell's content when known
	mem  []value // byte memory starting at the pointed byte (cap = rest of object), or nil
	cobj *cobj   // C allocation this points into, if any
}

func (p unsafePtr) isNil() bool { return p.cell == nil && p.mem == nil }

func (p unsafePtr) eq(y value) bool {
	q, ok := y.(unsafePtr)
	if !ok {
		return false
	}
	if p.isNil() || q.isNil() {
		return p.isNil() == q.isNil()
	}
	if p.cell != nil || q.cell != nil {
		return p.cell == q.cell
	}
	return sameMem(p.mem, q.mem)
}

func sameMem(a, b []value) bool {
	if cap(a) == 0 || cap(b) == 0 {
		return cap(a) == cap(b)
	}
	return &a[:1][0] == &b[:1][0]
}

// cobj is one C heap allocation.
type cobj struct {
	id    int
	mem   []value
	freed bool
	size  int
}

// uptrInt is a uintptr that was derived from a pointer: (memory, byte offset).
type uptrInt struct {
	mem  []value // whole remaining object from the base pointer
	off  int
	cobj *cobj
}

// hdrView is a *reflect.SliceHeader aliasing a slice variable.
type hdrView struct {
	cell *value // the slice variable ([]value or string)
	st   *hdrState
}

type hdrState struct {
	data     uptrInt
	haveData bool
	ln, cp   int
	haveLen  bool
	haveCap  bool
}

// hdrField is &hdr.Data / &hdr.Len / &hdr.Cap.
type hdrField struct {
	v     hdrView
	field int
}

// wordPtr is a *uint32 / *uint64 / *[n]T obtained from an unsafe.Pointer into byte memory.
type wordPtr struct {
	mem   []value
	bytes int
}

func (h hdrView) apply() {
	st := h.st
	if !st.haveData {
		return
	}
	ln, cp := st.ln, st.cp
	if !st.haveCap {
		cp = ln
	}
	if !st.haveLen {
		ln = 0
	}
	if cp < ln {
		cp = ln
	}
	base := st.data.mem
	if st.data.cobj != nil && st.data.cobj.freed {
		// a view of freed memory is only an error when used; the bytes are poisoned
	}
	if st.data.off > len(base[:cap(base)]) {
		panic(memError("slice header data offset beyond object"))
	}
	full := base[:cap(base)]
	if st.data.off+cp > len(full) {
		panic(memError(fmt.Sprintf("slice header claims %d bytes but the object has %d", st.data.off+cp, len(full))))
	}
	*h.cell = full[st.data.off : st.data.off+ln : st.data.off+cp]
}

func (f hdrField) store(v value) {
	st := f.v.st
	switch f.field {
	case 0:
		switch d := v.(type) {
		case uptrInt:
			st.data, st.haveData = d, true
		case uintptr:
			if d == 0 {
				st.haveData = false
				*f.v.cell = []value(nil)
				return
			}
			panic(engineAbort{psInconclusive, "slice header Data set from a plain integer"})
		default:
			panic(engineAbort{psInconclusive, fmt.Sprintf("slice header Data set from %T", v)})
		}
	case 1:
		st.ln, st.haveLen = int(concInt(v, "hdr.Len")), true
	case 2:
		st.cp, st.haveCap = int(concInt(v, "hdr.Cap")), true
	}
	f.v.apply()
}

func (f hdrField) load() value {
	cur := *f.v.cell
	switch f.field {
	case 0:
		switch s := cur.(type) {
		case []value:
			if s == nil {
				return uintptr(0)
			}
			return uptrInt{mem: s[:cap(s)], off: 0}
		}
		panic(engineAbort{psInconclusive, fmt.Sprintf("slice header Data read of %T", cur)})
	case 1:
		switch s := cur.(type) {
		case []value:
			return len(s)
		}
	case 2:
		switch s := cur.(type) {
		case []value:
			return cap(s)
		}
	}
	panic(engineAbort{psInconclusive, "slice header field read"})
}

// loadWord reads a little-endian integer through a wordPtr.
func (w wordPtr) load(k types.BasicKind) value {
	if len(w.mem[:cap(w.mem)]) < w.bytes {
		panic(memError(fmt.Sprintf("%d-byte load beyond end of object", w.bytes)))
	}
	m := w.mem[:w.bytes]
	return leCombine(m, k)
}

func leCombine(m []value, k types.BasicKind) value {
	b := findBuilder(m)
	if b == nil {
		var v uint64
		for i := len(m) - 1; i >= 0; i-- {
			x, ok := m[i].(uint8)
			if !ok {
				if _, p := m[i].(poison); p {
					panic(memError("load from freed C memory"))
				}
				panic(engineAbort{psEngineError, fmt.Sprintf("leCombine: element %T", m[i])})
			}
			v = v<<8 | uint64(x)
		}
		return mkConc(k, v)
	}
	t, _ := termOf(b, m[len(m)-1])
	for i := len(m) - 2; i >= 0; i-- {
		if _, p := m[i].(poison); p {
			panic(memError("load from freed C memory"))
		}
		ti, _ := termOf(b, m[i])
		t = b.Concat(t, ti)
	}
	return mkSV(t, k)
}

func (w wordPtr) store(v value) {
	if len(w.mem[:cap(w.mem)]) < w.bytes {
		panic(memError(fmt.Sprintf("%d-byte store beyond end of object", w.bytes)))
	}
	m := w.mem[:w.bytes]
	if s, ok := v.(sv); ok {
		b := s.t.B
		for i := 0; i < w.bytes; i++ {
			m[i] = mkSV(b.Extract(s.t, 8*i+7, 8*i), types.Uint8)
		}
		return
	}
	_, raw, ok := concKind(v)
	if !ok {
		panic(engineAbort{psInconclusive, "word store of non-integer"})
	}
	for i := 0; i < w.bytes; i++ {
		m[i] = uint8(raw >> (8 * uint(i)))
	}
}
