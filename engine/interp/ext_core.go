package interp

// External (intercepted) functions: harness API, sync, atomic, time, runtime, cgo.

import (
	"fmt"
	"os"
	"go/token"
	"go/types"
	"strings"

	"golang.org/x/tools/go/ssa"

	"gosym/smt"
)

var extTable = map[string]externalFn{}

func reg(name string, f externalFn) { extTable[name] = f }

func noop(fr *frame, args []value) value { return nil }

func lookupExternal(fn *ssa.Function, name string, env *Env) externalFn {
	if f, ok := extTable[name]; ok {
		return f
	}
	short := fn.Name()
	// synthetic package initialisers of packages we do not interpret
	if fn.Pkg != nil && short == "init" && fn.Parent() == nil && fn == fn.Pkg.Func("init") {
		p := fn.Pkg.Pkg.Path()
		if isRepoPkg(p) {
			return nil
		}
		if env.initAllow[p] {
			return nil
		}
		return noop
	}
	if fn.Pkg != nil {
		p := fn.Pkg.Pkg.Path()
		if strings.HasPrefix(short, "_Cfunc_") {
			if f, ok := extTable["cgo:"+short]; ok {
				return f
			}
			return func(fr *frame, args []value) value {
				panic(engineAbort{psInconclusive, "C function not modelled: " + name})
			}
		}
		if short == "_cgoCheckPointer" || short == "_Cgo_use" || short == "_cgoCheckResult" || short == "_Cgo_no_callback" {
			return noop
		}
		if p == RepoModule+"/loghub" {
			if f := loghubExternal(fn, short); f != nil {
				return f
			}
		}
		if p == VrtPkg {
			if f, ok := extTable["vrt."+short]; ok {
				return f
			}
			if fn.Blocks != nil {
				return nil // helper implemented in Go: interpret it
			}
		}
	}
	return nil
}

func loghubExternal(fn *ssa.Function, short string) externalFn {
	if fn.Signature.Recv() == nil {
		switch short {
		case "InitLogger", "InitErrorLog", "InitAccessLog", "InitAnalysisLog":
			return noop
		}
		return nil
	}
	recv := fn.Signature.Recv().Type().String()
	if !strings.HasSuffix(recv, "loghub.Logger") {
		return nil
	}
	switch short {
	case "Debugf", "Infof", "Warnf", "Errorf", "SetLevel":
		return noop
	case "Fatalf":
		return func(fr *frame, args []value) value {
			panic(engineAbort{psFailStop, "logger.Fatalf: " + sprintfValues(fr, args[1], args[2])})
		}
	case "Logf":
		return func(fr *frame, args []value) value {
			if lv, ok := args[1].(int); ok && lv >= 4 {
				panic(engineAbort{psFailStop, "logger.Logf(FATAL)"})
			}
			return nil
		}
	}
	return nil
}

// ------------------------------------------------------------------ vrt

func symScalar(fr *frame, name value, k types.BasicKind) value {
	c := fr.i.ctx
	n := name.(string)
	w := kindWidth(k)
	t := c.freshVar(n, w)
	if c.replayModel != nil {
		v := c.replayModel[t.Name]
		return mkSV(c.b.ConstW(w, v), k)
	}
	return sv{t, k}
}

func init() {
	for name, k := range map[string]types.BasicKind{
		"U8": types.Uint8, "U16": types.Uint16, "U32": types.Uint32, "U64": types.Uint64,
		"I32": types.Int32, "I64": types.Int64, "Int": types.Int,
	} {
		k := k
		reg("vrt."+name, func(fr *frame, args []value) value { return symScalar(fr, args[0], k) })
	}
	reg("vrt.Bool", func(fr *frame, args []value) value {
		c := fr.i.ctx
		t := c.freshVar(args[0].(string), 0)
		if c.replayModel != nil {
			return c.replayModel[t.Name] != 0
		}
		return sv{t, types.Bool}
	})
	reg("vrt.Bytes", func(fr *frame, args []value) value {
		n := int(asInt64(args[1]))
		r := make([]value, n)
		for i := range r {
			r[i] = symScalar(fr, args[0], types.Uint8)
		}
		return r
	})
	reg("vrt.String", func(fr *frame, args []value) value {
		n := int(asInt64(args[1]))
		r := make([]value, n)
		for i := range r {
			r[i] = symScalar(fr, args[0], types.Uint8)
		}
		return mkStr(r)
	})
	reg("vrt.Choice", func(fr *frame, args []value) value {
		return fr.i.ctx.choose(int(asInt64(args[1])), "choice:"+args[0].(string))
	})
	reg("vrt.Assume", func(fr *frame, args []value) value {
		c := fr.i.ctx
		c.assume(asBoolTerm(c.b, args[0]))
		return nil
	})
	reg("vrt.Assert", func(fr *frame, args []value) value {
		c := fr.i.ctx
		c.reached[args[0].(string)] = true
		c.check(args[0].(string), asBoolTerm(c.b, args[1]), "", nil)
		return nil
	})
	reg("vrt.AssertKnown", func(fr *frame, args []value) value {
		c := fr.i.ctx
		c.reached[args[0].(string)] = true
		c.check(args[0].(string), asBoolTerm(c.b, args[3]), args[1].(string), asBoolTerm(c.b, args[2]))
		return nil
	})
	reg("vrt.Fail", func(fr *frame, args []value) value {
		c := fr.i.ctx
		c.reached[args[0].(string)] = true
		c.check(args[0].(string), c.b.False(), "", nil)
		return nil
	})
	reg("vrt.Reach", func(fr *frame, args []value) value {
		fr.i.ctx.reached[args[0].(string)] = true
		return nil
	})
	reg("vrt.All", func(fr *frame, args []value) value {
		c := fr.i.ctx
		acc := c.b.True()
		for _, v := range args[0].([]value) {
			acc = c.b.And(acc, asBoolTerm(c.b, v))
		}
		return mkSV(acc, types.Bool)
	})
	reg("vrt.Any", func(fr *frame, args []value) value {
		c := fr.i.ctx
		acc := c.b.False()
		for _, v := range args[0].([]value) {
			acc = c.b.Or(acc, asBoolTerm(c.b, v))
		}
		return mkSV(acc, types.Bool)
	})
	reg("vrt.Implies", func(fr *frame, args []value) value {
		c := fr.i.ctx
		return mkSV(c.b.Implies(asBoolTerm(c.b, args[0]), asBoolTerm(c.b, args[1])), types.Bool)
	})
	reg("vrt.IteU64", func(fr *frame, args []value) value {
		c := fr.i.ctx
		ta, _ := termOf(c.b, args[1])
		tb, _ := termOf(c.b, args[2])
		return mkSV(c.b.Ite(asBoolTerm(c.b, args[0]), ta, tb), types.Uint64)
	})
	reg("vrt.IteU32", func(fr *frame, args []value) value {
		c := fr.i.ctx
		ta, _ := termOf(c.b, args[1])
		tb, _ := termOf(c.b, args[2])
		return mkSV(c.b.Ite(asBoolTerm(c.b, args[0]), ta, tb), types.Uint32)
	})
	reg("vrt.IteU16", func(fr *frame, args []value) value {
		c := fr.i.ctx
		ta, _ := termOf(c.b, args[1])
		tb, _ := termOf(c.b, args[2])
		return mkSV(c.b.Ite(asBoolTerm(c.b, args[0]), ta, tb), types.Uint16)
	})
	reg("vrt.IteInt", func(fr *frame, args []value) value {
		c := fr.i.ctx
		ta, _ := termOf(c.b, args[1])
		tb, _ := termOf(c.b, args[2])
		return mkSV(c.b.Ite(asBoolTerm(c.b, args[0]), ta, tb), types.Int)
	})
	reg("vrt.BytesEq", func(fr *frame, args []value) value {
		a, b := args[0].([]value), args[1].([]value)
		if len(a) != len(b) {
			return false
		}
		checkPoison(a)
		checkPoison(b)
		return bytesEq(a, b)
	})
	reg("vrt.Observe", func(fr *frame, args []value) value {
		c := fr.i.ctx
		c.observes = append(c.observes, observed{args[0].(string), fr.i.fmtObserve(args[1])})
		return nil
	})
	reg("vrt.Symbolic", func(fr *frame, args []value) value { return true })
	reg("vrt.TempDir", func(fr *frame, args []value) value { return fr.i.fs.tempDir() })
	reg("vrt.Cleanup", noop)
	reg("vrt.SnapshotDir", func(fr *frame, args []value) value {
		fs := fr.i.fs
		src := fs.lookup(args[0].(string))
		dst := fs.tempDir()
		if src == nil || !src.dir {
			panic(engineAbort{psEngineError, "SnapshotDir: no such directory"})
		}
		d := fs.lookup(dst)
		for name, n := range src.kids {
			if n.dir {
				continue
			}
			d.kids[name] = fs.snapshotNode(n)
		}
		return dst
	})
	reg("vrt.SchedMode", func(fr *frame, args []value) value {
		fr.i.sched.maxPreempt = int(asInt64(args[0]))
		fr.i.sched.preempts = 0
		return nil
	})
	reg("vrt.ExploreOrder", func(fr *frame, args []value) value { fr.i.sched.exploreOrder = args[0].(bool); return nil })
	reg("vrt.EagerSpawn", func(fr *frame, args []value) value { fr.i.sched.eagerSpawn = args[0].(bool); return nil })
	reg("vrt.KillOthers", func(fr *frame, args []value) value {
		// process exit: every other goroutine is gone (they are never scheduled again)
		s := fr.i.sched
		for _, t := range s.threads {
			if t != s.cur && !t.done {
				t.waiting = func() bool { return false }
				t.why = "killed (process exit)"
				t.dead = true
			}
		}
		return nil
	})
	reg("vrt.QlzBoth", func(fr *frame, args []value) value { fr.i.qlzBoth = true; return nil })
	reg("vrt.KnownMemError", func(fr *frame, args []value) value {
		fr.i.ctx.knownMemID, fr.i.ctx.knownMemPat = toString(args[0]), toString(args[1])
		return nil
	})
	reg("vrt.QlzReal", func(fr *frame, args []value) value { fr.i.qlzReal = true; return nil })
	reg("vrt.Drain", func(fr *frame, args []value) value { fr.i.sched.drain(); return nil })
	reg("vrt.Yield", func(fr *frame, args []value) value { fr.i.sched.yield(args[0].(string)); return nil })
	reg("vrt.DeadlockIsViolation", func(fr *frame, args []value) value { fr.i.sched.deadlockIsViolation = true; return nil })
	reg("vrt.AllocLimit", func(fr *frame, args []value) value { fr.i.ctx.allocLimit = asInt64(args[0]); return nil })
	reg("vrt.StepLimit", func(fr *frame, args []value) value { fr.i.maxSteps = asInt64(args[0]); return nil })
	reg("vrt.DecisionLimit", func(fr *frame, args []value) value { fr.i.ctx.maxDecisions = int(asInt64(args[0])); return nil })
	reg("vrt.Tag", func(fr *frame, args []value) value {
		fr.i.ctx.tags = append(fr.i.ctx.tags, args[0].(string))
		return nil
	})
	reg("vrt.Summarize", func(fr *frame, args []value) value {
		name := args[0].(string)
		if name == "crc32_write" {
			fr.i.summaries["cgo:crc32_write"] = "fold"
			return nil
		}
		if fr.i.env.byName[name] == nil {
			panic(engineAbort{psEngineError, "Summarize: no function " + name})
		}
		fr.i.summaries[name] = "fold"
		return nil
	})
	reg("vrt.BytesLen", func(fr *frame, args []value) value {
		if s, ok := args[1].(sv); ok {
			return lenOnly{s}
		}
		n := asInt64(args[1])
		r := make([]value, n)
		for i := range r {
			r[i] = uint8(0)
		}
		return r
	})
	reg("vrt.Log", func(fr *frame, args []value) value {
		if debugLog {
			fmt.Fprintln(os.Stderr, "vrt.Log:", sprintfValues(fr, args[0], args[1]))
		}
		return nil
	})
	reg("vrt.Tier", func(fr *frame, args []value) value { return fr.i.env.Tier })
	reg("vrt.Harness", func(fr *frame, args []value) value { return "" })
}

// fmtObserve renders an observed value; symbolic parts are evaluated under the
// final model when the witness is produced, so here we keep terms by forcing them
// concrete (an observe on a symbolic value concretizes it: use sparingly).
func (i *interpreter) fmtObserve(v value) string {
	if itf, ok := v.(iface); ok {
		if itf.t == nil {
			return "nil"
		}
		if types.Implements(itf.t, errorIface) {
			return "err"
		}
		v = itf.v
	}
	switch x := v.(type) {
	case []value:
		var sb strings.Builder
		for _, e := range x {
			fmt.Fprintf(&sb, "%02x", uint8(concInt(e, "observe")))
		}
		return sb.String()
	case string:
		return fmt.Sprintf("%x", x)
	case symstr:
		var sb strings.Builder
		for _, e := range x.b {
			fmt.Fprintf(&sb, "%02x", uint8(concInt(e, "observe")))
		}
		return sb.String()
	case bool:
		if x {
			return "1"
		}
		return "0"
	case sv:
		if x.k == types.Bool {
			if decideBool(x) {
				return "1"
			}
			return "0"
		}
		r := concInt(x, "observe")
		if kindSigned(x.k) {
			return fmt.Sprintf("%d", r)
		}
		return fmt.Sprintf("%d", uint64(r))
	case *value:
		if x == nil {
			return "nil"
		}
		return "ptr"
	}
	if k, raw, ok := concKind(v); ok {
		if kindSigned(k) {
			w := kindWidth(k)
			return fmt.Sprintf("%d", int64(raw<<uint(64-w))>>uint(64-w))
		}
		return fmt.Sprintf("%d", raw)
	}
	return fmt.Sprintf("<%T>", v)
}

var errorIface = types.Universe.Lookup("error").Type().Underlying().(*types.Interface)

// ------------------------------------------------------------------ sync

// Mutex layout in the target: struct{state int32; sema uint32} (or wrapped
// `sync.Mutex{_ noCopy?; mu isync.Mutex}` in newer Go). We only ever use the
// first int32 cell found as the lock word.
func lockWord(p *value) *value {
	if w := firstWord(p); w != nil {
		return w
	}
	panic(engineAbort{psEngineError, "lockWord: no integer word in sync object"})
}

// firstWord finds the first integer cell inside a (nested) struct, skipping empty structs.
func firstWord(p *value) *value {
	switch s := (*p).(type) {
	case structure:
		for i := range s {
			if w := firstWord(&s[i]); w != nil {
				return w
			}
		}
		return nil
	case array:
		for i := range s {
			if w := firstWord(&s[i]); w != nil {
				return w
			}
		}
		return nil
	case int32, uint32, int64, uint64, int:
		return p
	}
	return nil
}

func wordInt(p *value) int64 {
	switch x := (*p).(type) {
	case int32:
		return int64(x)
	case uint32:
		return int64(x)
	case int64:
		return x
	case uint64:
		return int64(x)
	case int:
		return int64(x)
	}
	panic(engineAbort{psEngineError, fmt.Sprintf("wordInt: %T", *p)})
}

func setWord(p *value, n int64) {
	switch (*p).(type) {
	case int32:
		*p = int32(n)
	case uint32:
		*p = uint32(n)
	case int64:
		*p = n
	case uint64:
		*p = uint64(n)
	case int:
		*p = int(n)
	default:
		panic(engineAbort{psEngineError, fmt.Sprintf("setWord: %T", *p)})
	}
}

func mutexLock(fr *frame, args []value) value {
	s := fr.i.sched
	w := lockWord(args[0].(*value))
	s.yield("lock")
	if wordInt(w) != 0 {
		s.block(func() bool { return wordInt(w) == 0 }, "mutex")
	}
	setWord(w, 1)
	return nil
}

func mutexUnlock(fr *frame, args []value) value {
	w := lockWord(args[0].(*value))
	if wordInt(w) == 0 {
		panic(targetPanic{iface{fr.i.runtimeErrorString, "sync: unlock of unlocked mutex"}})
	}
	setWord(w, 0)
	fr.i.sched.yield("unlock")
	return nil
}

func mutexTryLock(fr *frame, args []value) value {
	w := lockWord(args[0].(*value))
	if wordInt(w) != 0 {
		return false
	}
	setWord(w, 1)
	return true
}

// RWMutex: struct{ w Mutex; writerSem, readerSem uint32; readerCount, readerWait atomic.Int32 }
// we use w's word as the writer flag and field 3's word as the reader count.
func rwParts(p *value) (wr *value, rd *value) {
	s := (*p).(structure)
	return lockWord(&s[0]), lockWord(&s[3])
}

func init() {
	reg("(*sync.Mutex).Lock", mutexLock)
	reg("(*sync.Mutex).Unlock", mutexUnlock)
	reg("(*sync.Mutex).TryLock", mutexTryLock)
	reg("(*sync.RWMutex).Lock", func(fr *frame, args []value) value {
		s := fr.i.sched
		wr, rd := rwParts(args[0].(*value))
		s.yield("rwlock")
		free := func() bool { return wordInt(wr) == 0 && wordInt(rd) == 0 }
		if !free() {
			s.block(free, "rwmutex write lock")
		}
		setWord(wr, 1)
		return nil
	})
	reg("(*sync.RWMutex).Unlock", func(fr *frame, args []value) value {
		wr, _ := rwParts(args[0].(*value))
		if wordInt(wr) == 0 {
			panic(targetPanic{iface{fr.i.runtimeErrorString, "sync: Unlock of unlocked RWMutex"}})
		}
		setWord(wr, 0)
		fr.i.sched.yield("rwunlock")
		return nil
	})
	reg("(*sync.RWMutex).RLock", func(fr *frame, args []value) value {
		s := fr.i.sched
		wr, rd := rwParts(args[0].(*value))
		s.yield("rlock")
		free := func() bool { return wordInt(wr) == 0 }
		if !free() {
			s.block(free, "rwmutex read lock")
		}
		setWord(rd, wordInt(rd)+1)
		return nil
	})
	reg("(*sync.RWMutex).RUnlock", func(fr *frame, args []value) value {
		_, rd := rwParts(args[0].(*value))
		if wordInt(rd) <= 0 {
			panic(targetPanic{iface{fr.i.runtimeErrorString, "sync: RUnlock of unlocked RWMutex"}})
		}
		setWord(rd, wordInt(rd)-1)
		fr.i.sched.yield("runlock")
		return nil
	})
	// WaitGroup: struct{ noCopy; state atomic.Uint64; sema uint32 }: counter kept in the state word
	wgWord := func(p *value) *value {
		s := (*p).(structure)
		return lockWord(&s[1])
	}
	reg("(*sync.WaitGroup).Add", func(fr *frame, args []value) value {
		w := wgWord(args[0].(*value))
		n := wordInt(w) + asInt64(args[1])
		if n < 0 {
			panic(targetPanic{iface{fr.i.runtimeErrorString, "sync: negative WaitGroup counter"}})
		}
		setWord(w, n)
		return nil
	})
	reg("(*sync.WaitGroup).Done", func(fr *frame, args []value) value {
		w := wgWord(args[0].(*value))
		n := wordInt(w) - 1
		if n < 0 {
			panic(targetPanic{iface{fr.i.runtimeErrorString, "sync: negative WaitGroup counter"}})
		}
		setWord(w, n)
		fr.i.sched.yield("wg-done")
		return nil
	})
	reg("(*sync.WaitGroup).Wait", func(fr *frame, args []value) value {
		w := wgWord(args[0].(*value))
		if wordInt(w) != 0 {
			fr.i.sched.block(func() bool { return wordInt(w) == 0 }, "waitgroup")
		}
		return nil
	})
	// Once: struct{ done atomic.Uint32; m Mutex }
	reg("(*sync.Once).Do", func(fr *frame, args []value) value {
		s := (*args[0].(*value)).(structure)
		w := lockWord(&s[0])
		if wordInt(w) == 0 {
			setWord(w, 1)
			call(fr.i, fr, 0, args[1], nil)
		}
		return nil
	})
	// sync.Pool: no pooling
	reg("(*sync.Pool).Get", func(fr *frame, args []value) value {
		s := (*args[0].(*value)).(structure)
		newFn := s[len(s)-1]
		switch f := newFn.(type) {
		case *ssa.Function:
			if f == nil {
				return iface{}
			}
		}
		return call(fr.i, fr, 0, newFn, nil)
	})
	reg("(*sync.Pool).Put", noop)

	// atomics (plain operations + yield points)
	addInt := func(fr *frame, args []value) value {
		p := args[0].(*value)
		r := binopAdd(*p, args[1])
		*p = r
		fr.i.sched.yield("atomic")
		return r
	}
	for _, n := range []string{"AddInt32", "AddInt64", "AddUint32", "AddUint64", "AddUintptr"} {
		reg("sync/atomic."+n, addInt)
	}
	load := func(fr *frame, args []value) value {
		fr.i.sched.yield("atomic")
		return *args[0].(*value)
	}
	for _, n := range []string{"LoadInt32", "LoadInt64", "LoadUint32", "LoadUint64", "LoadUintptr", "LoadPointer"} {
		reg("sync/atomic."+n, load)
	}
	st := func(fr *frame, args []value) value {
		*args[0].(*value) = args[1]
		fr.i.sched.yield("atomic")
		return nil
	}
	for _, n := range []string{"StoreInt32", "StoreInt64", "StoreUint32", "StoreUint64", "StoreUintptr", "StorePointer"} {
		reg("sync/atomic."+n, st)
	}
	swap := func(fr *frame, args []value) value {
		p := args[0].(*value)
		old := *p
		*p = args[1]
		fr.i.sched.yield("atomic")
		return old
	}
	for _, n := range []string{"SwapInt32", "SwapInt64", "SwapUint32", "SwapUint64", "SwapUintptr"} {
		reg("sync/atomic."+n, swap)
	}
	cas := func(fr *frame, args []value) value {
		p := args[0].(*value)
		fr.i.sched.yield("atomic")
		if decideBool(binop(tokenEQL, nil, *p, args[1])) {
			*p = args[2]
			return true
		}
		return false
	}
	for _, n := range []string{"CompareAndSwapInt32", "CompareAndSwapInt64", "CompareAndSwapUint32", "CompareAndSwapUint64", "CompareAndSwapUintptr"} {
		reg("sync/atomic."+n, cas)
	}
	// typed atomics: struct{ _ noCopy; v T } or struct{ _ ; _ align64; v T}: value in the last field
	for _, ty := range []string{"Int32", "Int64", "Uint32", "Uint64", "Uintptr", "Bool"} {
		cell := func(p value) *value {
			s := (*p.(*value)).(structure)
			return &s[len(s)-1]
		}
		reg("(*sync/atomic."+ty+").Load", func(fr *frame, args []value) value {
			v := *cell(args[0])
			if ty == "Bool" {
				return wordInt(cell(args[0])) != 0
			}
			return v
		})
		reg("(*sync/atomic."+ty+").Store", func(fr *frame, args []value) value {
			if ty == "Bool" {
				n := int64(0)
				if args[1].(bool) {
					n = 1
				}
				setWord(cell(args[0]), n)
				return nil
			}
			*cell(args[0]) = args[1]
			return nil
		})
		reg("(*sync/atomic."+ty+").Add", func(fr *frame, args []value) value {
			c := cell(args[0])
			*c = binopAdd(*c, args[1])
			return *c
		})
		reg("(*sync/atomic."+ty+").CompareAndSwap", func(fr *frame, args []value) value {
			c := cell(args[0])
			if decideBool(binop(tokenEQL, nil, *c, args[1])) {
				*c = args[2]
				return true
			}
			return false
		})
		reg("(*sync/atomic."+ty+").Swap", func(fr *frame, args []value) value {
			c := cell(args[0])
			old := *c
			*c = args[1]
			return old
		})
	}
}

// ------------------------------------------------------------------ runtime & misc

func init() {
	reg("runtime.GC", noop)
	reg("runtime.Gosched", func(fr *frame, args []value) value { fr.i.sched.yield("gosched"); return nil })
	reg("runtime.KeepAlive", noop)
	reg("runtime.SetFinalizer", noop)
	reg("runtime.NumGoroutine", func(fr *frame, args []value) value { return 1 })
	reg("runtime.NumCPU", func(fr *frame, args []value) value { return 1 })
	reg("runtime.GOMAXPROCS", func(fr *frame, args []value) value { return 1 })
	reg("runtime.Caller", func(fr *frame, args []value) value { return tuple{uintptr(0), "file.go", 1, true} })
	reg("runtime.Stack", func(fr *frame, args []value) value { return 0 })
	reg("runtime/debug.FreeOSMemory", noop)
	reg("runtime/debug.Stack", func(fr *frame, args []value) value { return []value(nil) })
	reg("runtime/debug.PrintStack", noop)
	reg("os.Exit", func(fr *frame, args []value) value {
		panic(engineAbort{psFailStop, fmt.Sprintf("os.Exit(%d)", asInt64(args[0]))})
	})
	reg("os.Getpid", func(fr *frame, args []value) value { return 4242 })
	reg("os.Getenv", func(fr *frame, args []value) value { return "" })
	reg("syscall.Getrusage", func(fr *frame, args []value) value { return iface{} })
	reg(RepoModule+"/loghub.openLogWithFd", func(fr *frame, args []value) value { return (*value)(nil) })
	reg(RepoModule+"/utils.GetMaxRSS", func(fr *frame, args []value) value { return int64(0) })
	reg("log.Printf", noop)
	reg("log.Println", noop)
	reg("log.Print", noop)
	reg("log.Fatalf", func(fr *frame, args []value) value { panic(engineAbort{psFailStop, "log.Fatalf"}) })
	reg("log.Fatal", func(fr *frame, args []value) value { panic(engineAbort{psFailStop, "log.Fatal"}) })
	reg("log.Fatalln", func(fr *frame, args []value) value { panic(engineAbort{psFailStop, "log.Fatalln"}) })

	// time
	reg("time.Now", func(fr *frame, args []value) value { return fr.i.timeValue(fr.i.sched.clock) })
	reg("time.Since", func(fr *frame, args []value) value {
		return binop(token.SUB, nil, fr.i.sched.clock, timeNs(args[0]))
	})
	reg("time.Sleep", func(fr *frame, args []value) value {
		s := fr.i.sched
		d := asInt64(args[0])
		if d > 0 {
			s.clock += d
		}
		s.fireTimers()
		// sleeping lets every other goroutine run
		me := s.cur
		if len(s.others()) > 0 {
			me.waiting = func() bool { return true }
			me.why = "sleep"
			oth := s.others()
			k := s.pick(len(oth), "sleep")
			s.switchTo(oth[k])
			me.waiting = nil
		}
		return nil
	})
	reg("time.After", func(fr *frame, args []value) value {
		s := fr.i.sched
		c := &mchan{cp: 1, timerAt: s.clock + asInt64(args[0])}
		if c.timerAt <= s.clock {
			c.timerAt = s.clock + 1
		}
		s.timers = append(s.timers, c)
		return c
	})
	reg("time.Unix", func(fr *frame, args []value) value {
		if isSym(args[0]) || isSym(args[1]) {
			return structure{uint64(0), binopAdd(binop(token.MUL, nil, args[0], int64(1e9)), args[1]), (*value)(nil)}
		}
		return fr.i.timeValue(asInt64(args[0])*1e9 + asInt64(args[1]))
	})
	reg("vrt.ExactFmt", func(fr *frame, args []value) value { fr.i.exactFmt = args[0].(bool); return nil })
	reg("(time.Time).Unix", func(fr *frame, args []value) value {
		return binop(token.QUO, nil, timeNs(args[0]), int64(1e9))
	})
	reg("(time.Time).UnixNano", func(fr *frame, args []value) value { return timeNs(args[0]) })
	reg("(time.Time).Sub", func(fr *frame, args []value) value {
		return binop(token.SUB, nil, timeNs(args[0]), timeNs(args[1]))
	})
	reg("(time.Time).Before", func(fr *frame, args []value) value {
		return fr.i.timeNanos(args[0]) < fr.i.timeNanos(args[1])
	})
	reg("(time.Time).After", func(fr *frame, args []value) value {
		return fr.i.timeNanos(args[0]) > fr.i.timeNanos(args[1])
	})
	reg("(time.Time).IsZero", func(fr *frame, args []value) value { return fr.i.timeNanos(args[0]) == 0 })
	reg("(time.Time).String", func(fr *frame, args []value) value { return "<time>" })
	reg("(time.Time).Format", func(fr *frame, args []value) value { return "<time>" })
	reg("(time.Duration).Seconds", func(fr *frame, args []value) value { return float64(asInt64(args[0])) / 1e9 })
	reg("(time.Duration).String", func(fr *frame, args []value) value { return fmt.Sprintf("%dns", asInt64(args[0])) })
}

// time.Time is struct{wall uint64; ext int64; loc *Location}: we keep model
// nanoseconds in ext and wall = 0.
func (i *interpreter) timeValue(ns int64) value {
	return structure{uint64(0), ns, (*value)(nil)}
}

func (i *interpreter) timeNanos(v value) int64 {
	s := v.(structure)
	return asInt64(s[1])
}

func timeNs(v value) value { return v.(structure)[1] }

func goName(fr *frame, fn value) string {
	switch f := fn.(type) {
	case *ssa.Function:
		return f.Name()
	case *closure:
		return f.Fn.Name()
	}
	return "go"
}

// ------------------------------------------------------------------ cgo allocation model

func (i *interpreter) cMalloc(n int64, symbolicFill bool) unsafePtr {
	i.checkAlloc(n)
	sz := int(n)
	cells := sz
	if cells == 0 {
		cells = 1
	}
	mem := make([]value, cells)
	i.nextCobj++
	o := &cobj{id: i.nextCobj, mem: mem, size: sz}
	i.cobjs = append(i.cobjs, o)
	for k := range mem {
		// C memory is not zeroed: contents are arbitrary. Bytes become fresh
		// symbolic values lazily would be costlier; we materialise them.
		if symbolicFill && i.ctx != nil && sz <= 64 {
			mem[k] = symScalarCtx(i.ctx, "cmem", types.Uint8)
		} else {
			mem[k] = uint8(0xA5)
		}
	}
	return unsafePtr{mem: mem[:sz:cells], cobj: o}
}

func symScalarCtx(c *pathCtx, name string, k types.BasicKind) value {
	t := c.freshVar(name, kindWidth(k))
	if c.replayModel != nil {
		return mkSV(c.b.ConstW(kindWidth(k), c.replayModel[t.Name]), k)
	}
	return sv{t, k}
}

func (i *interpreter) cFree(p unsafePtr) {
	if p.isNil() {
		return
	}
	if p.cobj == nil {
		p.cobj = i.cobjOf(p.mem)
	}
	if p.cobj == nil {
		panic(memError("free of memory not obtained from malloc"))
	}
	if p.cobj.freed {
		panic(memError("double free of C allocation"))
	}
	if !sameMem(p.mem, p.cobj.mem) {
		panic(memError("free of interior pointer"))
	}
	p.cobj.freed = true
	for k := range p.cobj.mem {
		p.cobj.mem[k] = poison{}
	}
}

func init() {
	reg("cgo:_Cfunc_malloc", func(fr *frame, args []value) value {
		return fr.i.cMalloc(asInt64(args[0]), true)
	})
	reg("cgo:_Cfunc__CMalloc", func(fr *frame, args []value) value {
		return fr.i.cMalloc(asInt64(args[0]), true)
	})
	reg("cgo:_Cfunc_free", func(fr *frame, args []value) value {
		fr.i.cFree(args[0].(unsafePtr))
		return nil
	})
	reg("cgo:_Cfunc_realloc", func(fr *frame, args []value) value {
		old := args[0].(unsafePtr)
		n := asInt64(args[1])
		np := fr.i.cMalloc(n, true)
		if !old.isNil() {
			if old.cobj == nil || old.cobj.freed {
				panic(memError("realloc of freed or foreign memory"))
			}
			copy(np.mem, old.cobj.mem[:old.cobj.size])
			fr.i.cFree(old)
		}
		return np
	})
}

const (
	tokenADD = token.ADD
	tokenEQL = token.EQL
)

func binopAdd(x, y value) value { return binop(tokenADD, nil, x, y) }

// utils.InitSizesPointer uses reflect to copy "<Name>Str" size strings ("4K",
// "1M") into their numeric sibling fields; reimplemented over the interpreter's
// struct representation (reflect itself is not interpreted).
func initSizes(t *types.Struct, s structure) {
	for i := 0; i < t.NumFields(); i++ {
		name := t.Field(i).Name()
		switch {
		case strings.HasSuffix(name, "Config"):
			if st, ok := t.Field(i).Type().Underlying().(*types.Struct); ok {
				initSizes(st, s[i].(structure))
			}
		case strings.HasSuffix(name, "Str"):
			str, _ := s[i].(string)
			n := nativeStrToSize(str)
			want := name[:len(name)-3]
			for j := 0; j < t.NumFields(); j++ {
				if t.Field(j).Name() == want {
					setWord(&s[j], n)
				}
			}
		}
	}
}

func nativeStrToSize(s string) int64 {
	if len(s) == 0 {
		return 0
	}
	mult := int64(0)
	switch s[len(s)-1] {
	case 'K', 'k':
		mult = 1024
	case 'M', 'm':
		mult = 1024 * 1024
	case 'G', 'g':
		mult = 1024 * 1024 * 1024
	}
	if mult != 0 {
		s = s[:len(s)-1]
	}
	var n int64
	neg := false
	for i, c := range s {
		if i == 0 && (c == '-' || c == '+') {
			neg = c == '-'
			continue
		}
		if c < '0' || c > '9' {
			return 0
		}
		n = n*10 + int64(c-'0')
		if n > 1<<31-1 {
			return 1<<31 - 1
		}
	}
	if neg {
		n = -n
	}
	if mult != 0 {
		n *= mult
	}
	return n
}

func init() {
	reg(RepoModule+"/utils.InitSizesPointer", func(fr *frame, args []value) value {
		it := args[0].(iface)
		pt, ok := it.t.Underlying().(*types.Pointer)
		if !ok {
			panic(engineAbort{psInconclusive, "InitSizesPointer: not a pointer"})
		}
		st, ok := pt.Elem().Underlying().(*types.Struct)
		if !ok {
			panic(engineAbort{psInconclusive, "InitSizesPointer: not a struct"})
		}
		initSizes(st, (*it.v.(*value)).(structure))
		return iface{}
	})
}

// lenOnly is a byte slice of symbolic length whose contents are never inspected
// (only len/cap are supported): used by arithmetic kernels over sizes.
type lenOnly struct{ n sv }

// summarizedCall replaces a pure byte-folding function (FNV, CRC) by a chain of
// uninterpreted step applications: result = step(...step(step(init, b0), b1)...).
// Equal inputs give equal outputs; nothing else is known about the function.
// The function's own behaviour is checked separately (C16).
func summarizedCall(fr *frame, fn *ssa.Function, kind string, args []value) value {
	c := fr.i.ctx
	b := c.b
	bytes, ok := args[0].([]value)
	if !ok || len(args) != 1 {
		panic(engineAbort{psInconclusive, "summary of " + fn.String() + ": unsupported signature"})
	}
	name := "sum:" + fn.String()
	h := b.UF(name+":init", 32)
	for _, x := range bytes {
		if _, bad := x.(poison); bad {
			panic(memError("read of freed C memory"))
		}
		tx, _ := termOf(b, x)
		h = b.UF(name+":step", 32, h, tx)
	}
	return mkSV(h, types.Uint32)
}

// lazyFold is the value of a summarised CRC state whose most recent input is a run of
// concrete bytes not yet folded into the term: runs of concrete bytes are folded as ONE
// uninterpreted application over a 64-bit digest of the run (independent of how the run was
// split across write calls), symbolic bytes as one application each. This keeps the term for a
// 50 KB record a handful of nodes instead of 50 000.
type lazyFold struct {
	base *smt.Term // 32-bit state before the pending run
	pend []byte
}

func (l lazyFold) force() value {
	b := l.base.B
	h := l.base
	if len(l.pend) > 0 {
		d := uint64(14695981039346656037)
		for _, c := range l.pend {
			d = (d ^ uint64(c)) * 1099511628211
		}
		d ^= uint64(len(l.pend)) * 0x9e3779b97f4a7c15
		h = b.UF("sum:crc32:run", 32, h, b.Const(64, d))
	}
	return mkSV(h, types.Uint32)
}

// forceLazy materialises a lazyFold (any other value is returned unchanged).
func forceLazy(v value) value {
	if l, ok := v.(lazyFold); ok {
		return l.force()
	}
	return v
}

func crcFoldSummary(fr *frame, crc value, mem []value, n int) value {
	c := fr.i.ctx
	b := c.b
	var cur lazyFold
	switch x := crc.(type) {
	case lazyFold:
		cur = lazyFold{base: x.base, pend: append([]byte(nil), x.pend...)}
	default:
		t, _ := termOf(b, crc)
		cur = lazyFold{base: t}
	}
	if n > len(mem[:cap(mem)]) {
		panic(memError("crc32_write reads past the end of the buffer"))
	}
	for _, x := range mem[:cap(mem)][:n] {
		switch y := x.(type) {
		case uint8:
			cur.pend = append(cur.pend, y)
		case sv:
			h, _ := termOf(b, cur.force())
			cur = lazyFold{base: b.UF("sum:crc32:step", 32, h, y.t)}
		case poison:
			panic(memError("read of freed C memory"))
		default:
			panic(engineAbort{psEngineError, "crc over non-byte memory"})
		}
	}
	return cur
}

var debugLog = os.Getenv("GOSYM_LOG") != ""
