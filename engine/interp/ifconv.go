package interp

// If-conversion of small pure diamonds: when a symbolic `if` only selects between
// side-effect-free scalar computations (abs, min/max, flag tweaks, `a && b` chains
// in harness oracles), both sides are evaluated and merged with ite instead of
// forking the path.

import (
	"go/token"
	"go/types"
	"sync"

	"golang.org/x/tools/go/ssa"
)

type ifconvPlan struct {
	ok     bool
	join   *ssa.BasicBlock // nil for the two-returns pattern
	sides  [2]*ssa.BasicBlock
	viaJoin [2]bool // side i is the join block itself (triangle)
}

var ifconvCache sync.Map // *ssa.If -> *ifconvPlan

func pureInstr(in ssa.Instruction) bool {
	switch x := in.(type) {
	case *ssa.DebugRef:
		return true
	case *ssa.BinOp:
		switch x.Op {
		case token.QUO, token.REM:
			return false
		case token.SHL, token.SHR:
			if b, ok := x.Y.Type().Underlying().(*types.Basic); !ok || b.Info()&types.IsUnsigned == 0 {
				if _, isConst := x.Y.(*ssa.Const); !isConst {
					return false
				}
			}
		}
		return scalarType(x.Type())
	case *ssa.UnOp:
		switch x.Op {
		case token.SUB, token.NOT, token.XOR:
			return scalarType(x.Type())
		}
		return false
	case *ssa.Convert:
		return scalarInt(x.Type()) && scalarInt(x.X.Type())
	case *ssa.ChangeType:
		return scalarType(x.Type())
	}
	return false
}

func scalarInt(t types.Type) bool {
	b, ok := t.Underlying().(*types.Basic)
	return ok && b.Info()&types.IsInteger != 0
}

func scalarType(t types.Type) bool {
	b, ok := t.Underlying().(*types.Basic)
	return ok && b.Info()&(types.IsInteger|types.IsBoolean) != 0
}

func pureBlock(b *ssa.BasicBlock, allowReturn bool) (term ssa.Instruction, ok bool) {
	if len(b.Instrs) > 12 {
		return nil, false
	}
	for i, in := range b.Instrs {
		if i == len(b.Instrs)-1 {
			switch t := in.(type) {
			case *ssa.Jump:
				return t, true
			case *ssa.Return:
				if allowReturn {
					for _, r := range t.Results {
						if !scalarType(r.Type()) {
							return nil, false
						}
					}
					return t, true
				}
			}
			return nil, false
		}
		if _, isPhi := in.(*ssa.Phi); isPhi {
			return nil, false
		}
		if !pureInstr(in) {
			return nil, false
		}
	}
	return nil, false
}

func planIfconv(instr *ssa.If) *ifconvPlan {
	if p, ok := ifconvCache.Load(instr); ok {
		return p.(*ifconvPlan)
	}
	p := &ifconvPlan{}
	defer ifconvCache.Store(instr, p)
	blk := instr.Block()
	if blk.Parent().Recover != nil {
		return p
	}
	s0, s1 := blk.Succs[0], blk.Succs[1]
	p.sides = [2]*ssa.BasicBlock{s0, s1}
	// pattern B: both sides return scalars
	t0, ok0 := pureBlock(s0, true)
	t1, ok1 := pureBlock(s1, true)
	if ok0 && ok1 && len(s0.Preds) == 1 && len(s1.Preds) == 1 {
		_, r0 := t0.(*ssa.Return)
		_, r1 := t1.(*ssa.Return)
		if r0 && r1 {
			if blk.Parent().Signature.Results().Len() >= 1 && len(blk.Parent().Blocks) > 0 {
				// functions with deferred calls keep the ordinary path
				for _, b := range blk.Parent().Blocks {
					for _, in := range b.Instrs {
						if _, isDefer := in.(*ssa.Defer); isDefer {
							return p
						}
					}
				}
				p.ok = true
				return p
			}
		}
	}
	// pattern A: diamond or triangle into a join block with scalar phis
	sideJoin := func(s *ssa.BasicBlock) (*ssa.BasicBlock, bool) {
		t, ok := pureBlock(s, false)
		if !ok || len(s.Preds) != 1 {
			return nil, false
		}
		return t.(*ssa.Jump).Block().Succs[0], true
	}
	j0, d0 := sideJoin(s0)
	j1, d1 := sideJoin(s1)
	var join *ssa.BasicBlock
	switch {
	case d0 && d1 && j0 == j1:
		join = j0
	case d0 && j0 == s1:
		join, p.viaJoin[1] = s1, true
	case d1 && j1 == s0:
		join, p.viaJoin[0] = s0, true
	default:
		return p
	}
	// join must see exactly the two edges we merge, and only scalar phis
	if len(join.Preds) != 2 {
		return p
	}
	for _, in := range join.Instrs {
		phi, isPhi := in.(*ssa.Phi)
		if !isPhi {
			break
		}
		if !scalarType(phi.Type()) {
			return p
		}
	}
	p.join = join
	p.ok = true
	return p
}

func (fr *frame) runPure(b *ssa.BasicBlock) {
	for _, in := range b.Instrs[:len(b.Instrs)-1] {
		fr.i.steps++
		visitInstr(fr, in)
	}
}

func iteValue(c sv, x, y value) value {
	b := c.t.B
	tx, k := termOf(b, x)
	ty, _ := termOf(b, y)
	return mkSV(b.Ite(c.t, tx, ty), k)
}

// tryIfconv handles a symbolic If by evaluating both pure sides. It returns
// (continuation, true) when it took over.
func (fr *frame) tryIfconv(instr *ssa.If, c sv) (continuation, bool) {
	if fr.i.noIfconv {
		return 0, false
	}
	p := planIfconv(instr)
	if !p.ok {
		return 0, false
	}
	blk := fr.block
	if p.join == nil {
		// both sides return
		fr.runPure(p.sides[0])
		fr.runPure(p.sides[1])
		r0 := p.sides[0].Instrs[len(p.sides[0].Instrs)-1].(*ssa.Return)
		r1 := p.sides[1].Instrs[len(p.sides[1].Instrs)-1].(*ssa.Return)
		switch len(r0.Results) {
		case 0:
		case 1:
			fr.result = iteValue(c, fr.get(r0.Results[0]), fr.get(r1.Results[0]))
		default:
			var res []value
			for k := range r0.Results {
				res = append(res, iteValue(c, fr.get(r0.Results[k]), fr.get(r1.Results[k])))
			}
			fr.result = tuple(res)
		}
		fr.block = nil
		return kReturn, true
	}
	var pred [2]*ssa.BasicBlock
	for s := 0; s < 2; s++ {
		if p.viaJoin[s] {
			pred[s] = blk
		} else {
			fr.runPure(p.sides[s])
			pred[s] = p.sides[s]
		}
	}
	join := p.join
	idx0, idx1 := -1, -1
	for k, pb := range join.Preds {
		if pb == pred[0] && idx0 < 0 {
			idx0 = k
		} else if pb == pred[1] {
			idx1 = k
		}
	}
	if idx0 < 0 || idx1 < 0 {
		return 0, false
	}
	var vals []value
	var phis []*ssa.Phi
	for _, in := range join.Instrs {
		phi, isPhi := in.(*ssa.Phi)
		if !isPhi {
			break
		}
		phis = append(phis, phi)
		vals = append(vals, iteValue(c, fr.get(phi.Edges[idx0]), fr.get(phi.Edges[idx1])))
	}
	for k, phi := range phis {
		fr.env[phi] = vals[k]
	}
	fr.prevBlock, fr.block = pred[0], join
	fr.skipPhis = true
	return kJump, true
}
