package interp

import "unsafe"

func uintptrOf(p *value) uintptr { return uintptr(unsafe.Pointer(p)) }
