package interp

// cKernels holds the C kernels extracted from cgo preambles (filled by ckernel_llvm.go).
type cKernels struct {
	funcs map[string]*llFunc
	src   map[string]string
}
type llFunc struct{}
