package interp

// Execution of the small C kernels that the Go code calls through cgo
// (crc32_write in store/crc32.go, find in store/leaf.go): the cgo preamble of
// the *current* source file is compiled with clang to LLVM IR and the IR is
// interpreted over the engine's (possibly symbolic) values.

import (
	"fmt"
	"go/token"
	"go/types"
	"os"
	"os/exec"
	"path/filepath"
	"regexp"
	"strconv"
	"strings"

	"gosym/smt"
)

type cKernels struct {
	funcs   map[string]*llFunc
	globals map[string][]value // constant integer tables
	gwidth  map[string]int
	structs map[string][]string // %struct.name -> field type token lists (joined by space)
	Sources []string
}

type llInstr struct {
	dst  string
	op   string
	text string
	toks []string
}

type llBlock struct {
	label  string
	instrs []llInstr
}

type llFunc struct {
	name   string
	params []string
	ptypes []string
	blocks map[string]*llBlock
	entry  string
	ret    string
}

type llptr struct {
	mem    []value    // byte memory (base)
	off    int
	glob   string     // global table name (element index = off)
	soff   *smt.Term  // 64-bit symbolic byte offset added to off (nil: none)
	smax   uint64     // conservative unsigned maximum of soff (^0: unknown)
	salign int        // soff is a multiple of salign (0/1: unknown)
	reg    *logRegion // sparse scratch region (see ckernel_mem.go)
	undef  bool       // pointer value read from uninitialised memory
	base   uint64     // model address of the start of the object (for ptrtoint / comparisons)
}

var preambleRe = regexp.MustCompile(`(?s)/\*(.*?)\*/\s*import "C"`)

// loadCKernels extracts, compiles and parses the kernels in the given Go files.
func loadCKernels(work string, files []string) (*cKernels, error) {
	ck := newCKernels()
	os.MkdirAll(work, 0755)
	for _, f := range files {
		src, err := os.ReadFile(f)
		if err != nil {
			return nil, err
		}
		m := preambleRe.FindSubmatch(src)
		if m == nil {
			continue
		}
		base := strings.TrimSuffix(filepath.Base(f), ".go")
		cpath := filepath.Join(work, "ck_"+base+".c")
		lpath := filepath.Join(work, "ck_"+base+".ll")
		if err := os.WriteFile(cpath, m[1], 0644); err != nil {
			return nil, err
		}
		out, err := exec.Command("clang", "-O1", "-fno-unroll-loops", "-fno-vectorize", "-fno-slp-vectorize", "-S", "-emit-llvm", cpath, "-o", lpath).CombinedOutput()
		if err != nil {
			return nil, fmt.Errorf("clang %s: %v\n%s", f, err, out)
		}
		ir, err := os.ReadFile(lpath)
		if err != nil {
			return nil, err
		}
		if err := ck.parse(string(ir)); err != nil {
			return nil, fmt.Errorf("%s: %v", f, err)
		}
		ck.Sources = append(ck.Sources, f)
	}
	return ck, nil
}

func newCKernels() *cKernels {
	return &cKernels{funcs: map[string]*llFunc{}, globals: map[string][]value{}, gwidth: map[string]int{}, structs: map[string][]string{}}
}

// loadCFile compiles a whole C file of the repository (quicklz.c) and adds its functions.
func (ck *cKernels) loadCFile(work, cfile string, incl string) error {
	lpath := filepath.Join(work, "ck_"+strings.TrimSuffix(filepath.Base(cfile), ".c")+".ll")
	out, err := exec.Command("clang", "-O1", "-fno-unroll-loops", "-fno-vectorize", "-fno-slp-vectorize", "-S", "-emit-llvm", "-I", incl, cfile, "-o", lpath).CombinedOutput()
	if err != nil {
		return fmt.Errorf("clang %s: %v\n%s", cfile, err, out)
	}
	ir, err := os.ReadFile(lpath)
	if err != nil {
		return err
	}
	if err := ck.parse(string(ir)); err != nil {
		return fmt.Errorf("%s: %v", cfile, err)
	}
	ck.Sources = append(ck.Sources, cfile)
	return nil
}

var (
	structRe = regexp.MustCompile(`^(%[\w.]+) = type \{ (.*) \}`)
	globRe  = regexp.MustCompile(`^@([\w.]+) = .*constant \[(\d+) x i(\d+)\] \[(.*)\]`)
	defRe   = regexp.MustCompile(`^define .*? @(\w+)\((.*)\)`)
	labelRe = regexp.MustCompile(`^(\w+):`)
)

func (ck *cKernels) parse(ir string) error {
	lines := strings.Split(ir, "\n")
	var cur *llFunc
	var blk *llBlock
	for _, ln := range lines {
		if m := structRe.FindStringSubmatch(ln); m != nil {
			ck.structs[m[1]] = splitTop(m[2])
			continue
		}
		if m := globRe.FindStringSubmatch(ln); m != nil {
			w, _ := strconv.Atoi(m[3])
			var vals []value
			for _, e := range strings.Split(m[4], ",") {
				f := strings.Fields(strings.TrimSpace(e))
				if len(f) != 2 {
					return fmt.Errorf("bad table element %q", e)
				}
				n, err := strconv.ParseInt(f[1], 10, 64)
				if err != nil {
					return err
				}
				vals = append(vals, llConst(w, uint64(n)))
			}
			ck.globals[m[1]] = vals
			ck.gwidth[m[1]] = w
			continue
		}
		if m := defRe.FindStringSubmatch(ln); m != nil {
			cur = &llFunc{name: m[1], blocks: map[string]*llBlock{}}
			for _, p := range splitTop(m[2]) {
				f := strings.Fields(p)
				if len(f) == 0 {
					continue
				}
				cur.ptypes = append(cur.ptypes, f[0])
				cur.params = append(cur.params, f[len(f)-1])
			}
			// entry block is implicitly numbered after the params
			cur.entry = strconv.Itoa(len(cur.params))
			blk = &llBlock{label: cur.entry}
			cur.blocks[blk.label] = blk
			continue
		}
		if cur == nil {
			continue
		}
		t := strings.TrimSpace(ln)
		if t == "}" {
			ck.funcs[cur.name] = cur
			cur = nil
			continue
		}
		if t == "" || strings.HasPrefix(t, ";") {
			continue
		}
		if m := labelRe.FindStringSubmatch(t); m != nil {
			blk = &llBlock{label: m[1]}
			cur.blocks[blk.label] = blk
			continue
		}
		// strip metadata and comments
		if i := strings.Index(t, ", !"); i >= 0 {
			t = t[:i]
		}
		if i := strings.Index(t, ";"); i >= 0 {
			t = strings.TrimSpace(t[:i])
		}
		in := llInstr{text: t}
		if strings.HasPrefix(t, "%") {
			eq := strings.Index(t, " = ")
			in.dst = t[:eq]
			t = t[eq+3:]
		}
		in.toks = strings.Fields(strings.NewReplacer(",", " ", "(", " ( ", ")", " ) ", "[", " [ ", "]", " ] ").Replace(t))
		in.op = in.toks[0]
		blk.instrs = append(blk.instrs, in)
	}
	return nil
}

func splitTop(s string) []string {
	var out []string
	depth, start := 0, 0
	for i, c := range s {
		switch c {
		case '(', '[':
			depth++
		case ')', ']':
			depth--
		case ',':
			if depth == 0 {
				out = append(out, s[start:i])
				start = i + 1
			}
		}
	}
	if strings.TrimSpace(s[start:]) != "" {
		out = append(out, s[start:])
	}
	return out
}

func llConst(w int, v uint64) value {
	switch w {
	case 1:
		return v&1 == 1
	case 8:
		return uint8(v)
	case 16:
		return uint16(v)
	case 32:
		return uint32(v)
	case 64:
		return v
	}
	panic(engineAbort{psInconclusive, fmt.Sprintf("llvm integer width %d", w)})
}

func llWidth(ty string) int {
	if strings.HasPrefix(ty, "i") {
		if n, err := strconv.Atoi(ty[1:]); err == nil {
			return n
		}
	}
	return 0
}

func uKind(w int) types.BasicKind {
	switch w {
	case 8:
		return types.Uint8
	case 16:
		return types.Uint16
	case 32:
		return types.Uint32
	case 64:
		return types.Uint64
	}
	panic(engineAbort{psInconclusive, fmt.Sprintf("llvm width %d", w)})
}

func sKind(w int) types.BasicKind {
	switch w {
	case 8:
		return types.Int8
	case 16:
		return types.Int16
	case 32:
		return types.Int32
	case 64:
		return types.Int64
	}
	panic(engineAbort{psInconclusive, fmt.Sprintf("llvm width %d", w)})
}

// toKind reinterprets/extends integer v as kind k (from its own kind).
func toKind(v value, k types.BasicKind) value {
	v = forceLazy(v)
	if s, ok := v.(sv); ok {
		return symConvInt(s, k)
	}
	sk, raw, ok := concKind(v)
	if !ok {
		panic(engineAbort{psEngineError, fmt.Sprintf("toKind %T", v)})
	}
	if kindSigned(sk) {
		w := kindWidth(sk)
		raw = uint64(int64(raw<<uint(64-w)) >> uint(64-w))
	} else {
		raw &= maskW(kindWidth(sk))
	}
	return mkConc(k, raw)
}

func maskW(w int) uint64 {
	if w >= 64 {
		return ^uint64(0)
	}
	return 1<<uint(w) - 1
}

type llFrame struct {
	i    *interpreter
	fr   *frame
	ck   *cKernels
	regs map[string]value
	fn   string
}

func (lf *llFrame) operand(ty, tok string) value {
	if strings.HasPrefix(tok, "%") {
		v, ok := lf.regs[tok]
		if !ok {
			panic(engineAbort{psEngineError, "llvm: undefined register " + tok})
		}
		return v
	}
	if strings.HasPrefix(tok, "@") {
		return llptr{glob: tok[1:]}
	}
	if tok == "null" {
		return llptr{}
	}
	if tok == "undef" || tok == "poison" {
		if strings.HasSuffix(ty, "*") || ty == "ptr" {
			return llptr{undef: true}
		}
		return llConst(llWidth(ty), 0)
	}
	if tok == "true" {
		return true
	}
	if tok == "false" {
		return false
	}
	n, err := strconv.ParseInt(tok, 10, 64)
	if err != nil {
		panic(engineAbort{psInconclusive, "llvm: operand " + tok})
	}
	return llConst(llWidth(ty), uint64(n))
}

// callC runs a C kernel function.
func (ck *cKernels) call(fr *frame, name string, args []value) value {
	f := ck.funcs[name]
	if f == nil {
		panic(engineAbort{psInconclusive, "C function not in the extracted kernels: " + name})
	}
	lf := &llFrame{i: fr.i, fr: fr, ck: ck, regs: map[string]value{}, fn: name}
	for k, p := range f.params {
		a := args[k]
		if lp, ok := a.(llptr); ok && lp.base == 0 && !lp.isNull() && !lp.undef {
			lp.base = uint64(k+1) << 32 // objects live far apart at 16-aligned model addresses
			a = lp
		}
		lf.regs[p] = a
	}
	cur, prev := f.entry, ""
	for {
		blk := f.blocks[cur]
		if blk == nil {
			panic(engineAbort{psEngineError, "llvm: no block " + cur})
		}
		// phis first (parallel)
		np := 0
		tmp := map[string]value{}
		for _, in := range blk.instrs {
			if in.op != "phi" {
				break
			}
			np++
			// phi ty [ v, %lbl ] [ v, %lbl ]
			ty := in.toks[1]
			found := false
			for k := 2; k+4 < len(in.toks)+1; k++ {
				if in.toks[k] == "[" {
					v, lbl := in.toks[k+1], strings.TrimPrefix(in.toks[k+2], "%")
					if lbl == prev {
						tmp[in.dst] = lf.operand(ty, v)
						found = true
					}
				}
			}
			if !found {
				panic(engineAbort{psEngineError, "llvm: phi without incoming edge from " + prev})
			}
		}
		for k, v := range tmp {
			lf.regs[k] = v
		}
		next := ""
		for _, in := range blk.instrs[np:] {
			fr.i.steps++
			if fr.i.steps > fr.i.maxSteps {
				panic(engineAbort{psInconclusive, "step budget exhausted in C kernel"})
			}
			switch in.op {
			case "ret":
				if in.toks[1] == "void" {
					return nil
				}
				return lf.operand(in.toks[1], in.toks[2])
			case "br":
				if in.toks[1] == "label" {
					next = strings.TrimPrefix(in.toks[2], "%")
				} else {
					c := lf.operand("i1", in.toks[2])
					if decideBoolFr(fr, c) {
						next = strings.TrimPrefix(in.toks[4], "%")
					} else {
						next = strings.TrimPrefix(in.toks[6], "%")
					}
				}
			default:
				lf.regs[in.dst] = lf.exec(in)
			}
			if next != "" {
				break
			}
		}
		if next == "" {
			panic(engineAbort{psEngineError, "llvm: block without terminator"})
		}
		prev, cur = cur, next
	}
}

func decideBoolFr(fr *frame, c value) bool {
	if s, ok := c.(sv); ok {
		fr.i.branches++
		return fr.i.ctx.branch(s.t, "c-br")
	}
	return c.(bool)
}

var llBin = map[string]token.Token{
	"add": token.ADD, "sub": token.SUB, "mul": token.MUL, "and": token.AND, "or": token.OR, "xor": token.XOR,
	"shl": token.SHL, "lshr": token.SHR, "udiv": token.QUO, "urem": token.REM,
}

func (lf *llFrame) exec(in llInstr) value {
	t := in.toks
	// drop flags like nuw nsw exact inbounds
	var tk []string
	for _, x := range t {
		switch x {
		case "nuw", "nsw", "exact", "inbounds", "noundef", "nonnull", "tail", "notail":
			continue
		}
		tk = append(tk, x)
	}
	t = tk
	switch t[0] {
	case "add", "sub", "mul", "and", "or", "xor", "shl", "lshr", "udiv", "urem":
		ty := t[1]
		x, y := lf.operand(ty, t[2]), lf.operand(ty, t[3])
		if ty == "i1" {
			switch t[0] {
			case "and":
				return binopBool(token.LAND, x, y)
			case "or":
				return binopBool(token.LOR, x, y)
			case "xor":
				return binop(token.NEQ, nil, x, y)
			}
		}
		return binop(llBin[t[0]], nil, x, y)
	case "ashr", "sdiv", "srem":
		ty := t[1]
		w := llWidth(ty)
		x, y := toKind(lf.operand(ty, t[2]), sKind(w)), lf.operand(ty, t[3])
		var r value
		switch t[0] {
		case "ashr":
			r = binop(token.SHR, nil, x, y)
		case "sdiv":
			r = binop(token.QUO, nil, x, toKind(y, sKind(w)))
		default:
			r = binop(token.REM, nil, x, toKind(y, sKind(w)))
		}
		return toKind(r, uKind(w))
	case "zext":
		// zext ty v to ty2
		if t[1] == "i1" {
			b := lf.operand("i1", t[2])
			w := llWidth(t[4])
			if s, ok := b.(sv); ok {
				bb := s.t.B
				return mkSV(bb.Ite(s.t, bb.Const(w, 1), bb.Const(w, 0)), uKind(w))
			}
			if b.(bool) {
				return llConst(w, 1)
			}
			return llConst(w, 0)
		}
		return toKind(lf.operand(t[1], t[2]), uKind(llWidth(t[4])))
	case "sext":
		w0, w1 := llWidth(t[1]), llWidth(t[4])
		return toKind(toKind(toKind(lf.operand(t[1], t[2]), sKind(w0)), sKind(w1)), uKind(w1))
	case "trunc":
		return toKind(lf.operand(t[1], t[2]), uKind(llWidth(t[4])))
	case "icmp":
		pred, ty := t[1], t[2]
		x, y := lf.operand(ty, t[3]), lf.operand(ty, t[4])
		if px, ok := x.(llptr); ok {
			return lf.cmpPtr(pred, px, y.(llptr))
		}
		w := llWidth(ty)
		if pred[0] == 's' {
			x, y = toKind(x, sKind(w)), toKind(y, sKind(w))
		}
		if !isSym(x) && !isSym(y) && (pred == "eq" || pred == "ne") {
			_, rx, _ := concKind(forceLazy(x))
			_, ry, _ := concKind(forceLazy(y))
			return (rx&maskW(w) == ry&maskW(w)) == (pred == "eq")
		}
		switch pred {
		case "eq":
			return binop(token.EQL, nil, x, y)
		case "ne":
			return binop(token.NEQ, nil, x, y)
		case "ult", "slt":
			return binop(token.LSS, nil, x, y)
		case "ule", "sle":
			return binop(token.LEQ, nil, x, y)
		case "ugt", "sgt":
			return binop(token.GTR, nil, x, y)
		case "uge", "sge":
			return binop(token.GEQ, nil, x, y)
		}
	case "getelementptr":
		// getelementptr T, T* base, i64 idx0 [, iN idx1 ...]
		ty, j := lf.ck.parseType(t, 1)
		_, j = lf.ck.parseType(t, j)
		baseTok := t[j]
		j++
		if strings.HasPrefix(baseTok, "@") {
			// constant table: [N x iW]* @g, i64 0, i64 idx
			g := baseTok[1:]
			idx := lf.operand(t[j+2], t[j+3])
			if _, ok := idx.(sv); ok {
				return llptrSym{glob: g, idx: idx}
			}
			return llptr{glob: g, off: int(asInt64(idx))}
		}
		p, ok := lf.operand("ptr", baseTok).(llptr)
		if !ok {
			panic(engineAbort{psInconclusive, "llvm: gep base"})
		}
		first := true
		for ; j+1 < len(t); j += 2 {
			idx := lf.operand(t[j], t[j+1])
			switch {
			case first:
				p = lf.addIdx(p, idx, ty.size())
				first = false
			case ty.kind == 'a':
				ty = ty.elem
				p = lf.addIdx(p, idx, ty.size())
			case ty.kind == 's':
				k := int(asInt64(idx))
				p.off += ty.fieldOff(k)
				ty = ty.fields[k]
			default:
				panic(engineAbort{psInconclusive, "llvm: gep into scalar"})
			}
		}
		return p
	case "load":
		// load i8, i8* %p, align 1
		ty := t[1]
		switch p := lf.operand("ptr", t[3]).(type) {
		case llptr:
			if p.glob != "" {
				tab := lf.ck.globals[p.glob]
				if p.off < 0 || p.off >= len(tab) {
					panic(memError("C kernel reads past a constant table"))
				}
				return tab[p.off]
			}
			if strings.HasSuffix(ty, "*") || ty == "ptr" {
				if p.reg == nil {
					panic(engineAbort{psInconclusive, "llvm: pointer load from byte memory"})
				}
				return p.reg.load(lf, p, 8, true)
			}
			return lf.loadInt(p, llWidth(ty))
		case llptrSym:
			return symRead(lf.fr, lf.ck.globals[p.glob], p.idx)
		}
	case "store":
		// store i32 %v, i32* %p, align 4
		ty := t[1]
		p, ok := lf.operand("ptr", t[4]).(llptr)
		if !ok {
			panic(engineAbort{psInconclusive, "llvm: store target"})
		}
		v := lf.operand(ty, t[2])
		if strings.HasSuffix(ty, "*") || ty == "ptr" {
			if p.reg == nil {
				panic(engineAbort{psInconclusive, "llvm: pointer store to byte memory"})
			}
			p.reg.store(lf, p, 8, v)
			return nil
		}
		lf.storeInt(p, llWidth(ty), v)
		return nil
	case "ptrtoint":
		return lf.addrOf(lf.operand("ptr", t[2]).(llptr))
	case "call":
		// call i32 @bcmp ( i8* %a i8* %b i64 %n )
		fn, args, rty := lf.callArgs(in.text)
		switch {
		case strings.HasPrefix(fn, "llvm.memset."):
			p := args[0].(llptr)
			n := int(concInt(args[2], "memset-len"))
			if p.reg != nil {
				p.reg.memset(lf, p, n, args[1])
				return nil
			}
			for k, m := 0, lf.memRange(p, n, "memset"); k < len(m); k++ {
				m[k] = toKind(args[1], types.Uint8)
			}
			return nil
		case strings.HasPrefix(fn, "llvm.memcpy.") || strings.HasPrefix(fn, "llvm.memmove."):
			d, sp := args[0].(llptr), args[1].(llptr)
			if d.reg != nil || sp.reg != nil {
				panic(engineAbort{psInconclusive, "llvm: memcpy on the scratch region"})
			}
			n := int(concInt(args[2], "memcpy-len"))
			sm := lf.memRange(sp, n, "read (memcpy)")
			dm := lf.memRange(d, n, "write (memcpy)")
			checkPoisonC(lf, sm)
			checkPoisonC(lf, dm)
			tmp := append([]value(nil), sm...)
			copy(dm, tmp)
			return nil
		case strings.HasPrefix(fn, "llvm.umin."), strings.HasPrefix(fn, "llvm.umax."):
			lt := binop(token.LSS, nil, args[0], args[1])
			if strings.HasPrefix(fn, "llvm.umax.") {
				return lf.iteVal(lt, args[1], args[0])
			}
			return lf.iteVal(lt, args[0], args[1])
		case strings.HasPrefix(fn, "llvm.lifetime."), strings.HasPrefix(fn, "llvm.assume"), strings.HasPrefix(fn, "llvm.experimental.noalias"):
			return nil
		}
		if callee := lf.ck.funcs[fn]; callee != nil {
			return lf.ck.call(lf.fr, fn, args)
		}
		_ = rty
		switch fn {
		case "bcmp", "memcmp":
			a, b := args[0].(llptr), args[1].(llptr)
			n := int(asInt64(args[2]))
			fa, fb := a.mem[:cap(a.mem)], b.mem[:cap(b.mem)]
			if a.off+n > len(fa) || b.off+n > len(fb) || a.off < 0 || b.off < 0 {
				panic(memError(fmt.Sprintf("memcmp of %d bytes runs past the end of an object", n)))
			}
			x, y := fa[a.off:a.off+n], fb[b.off:b.off+n]
			checkPoison(x)
			checkPoison(y)
			eq := bytesEq(x, y)
			if fn == "memcmp" && !isTrueVal(eq) {
				// sign only matters when callers test <0/>0; kernels here test ==0
			}
			w := llWidth(rty)
			if s, ok := eq.(sv); ok {
				bb := s.t.B
				return mkSV(bb.Ite(s.t, bb.Const(w, 0), bb.Const(w, 1)), uKind(w))
			}
			if eq.(bool) {
				return llConst(w, 0)
			}
			return llConst(w, 1)
		}
		panic(engineAbort{psInconclusive, "llvm: call to " + fn})
	case "select":
		c := lf.operand("i1", t[2])
		x, y := lf.operand(t[3], t[4]), lf.operand(t[5], t[6])
		return lf.iteVal(c, x, y)
	case "bitcast":
		return lf.operand(t[1], t[2])
	}
	panic(engineAbort{psInconclusive, "llvm: unsupported instruction: " + in.text})
}

type llptrSym struct {
	glob string
	idx  value
}

func isTrueVal(v value) bool { b, ok := v.(bool); return ok && b }

func binopBool(op token.Token, x, y value) value {
	if isSym(x) || isSym(y) {
		return symBinop(op, x, y)
	}
	if op == token.LAND {
		return x.(bool) && y.(bool)
	}
	return x.(bool) || y.(bool)
}

// cPtrArg converts a Go-side pointer value passed to a C function into an llptr.
func cPtrArg(v value) llptr {
	switch p := v.(type) {
	case wordPtr:
		return llptr{mem: p.mem}
	case unsafePtr:
		if p.mem == nil && p.cell == nil {
			return llptr{}
		}
		if p.mem != nil {
			return llptr{mem: p.mem}
		}
	}
	panic(engineAbort{psInconclusive, fmt.Sprintf("pointer of kind %T passed to C", v)})
}

func init() {
	reg("cgo:_Cfunc_crc32_write", func(fr *frame, args []value) value {
		ck := fr.i.env.CKernels
		if ck == nil {
			panic(engineAbort{psInconclusive, "C kernels not loaded"})
		}
		if _, ok := fr.i.summaries["cgo:crc32_write"]; ok {
			p := cPtrArg(args[1])
			st := args[0]
			if _, lazy := st.(lazyFold); !lazy {
				st = toKind(st, types.Uint32)
			}
			return crcFoldSummary(fr, st, p.mem, int(asInt64(args[2])))
		}
		return ck.call(fr, "crc32_write", []value{toKind(args[0], types.Uint32), cPtrArg(args[1]), toKind(args[2], types.Uint32)})
	})
	reg("cgo:_Cfunc_find", func(fr *frame, args []value) value {
		ck := fr.i.env.CKernels
		if ck == nil {
			panic(engineAbort{psInconclusive, "C kernels not loaded"})
		}
		r := ck.call(fr, "find", []value{cPtrArg(args[0]), cPtrArg(args[1]), toKind(args[2], types.Uint32), toKind(args[3], types.Uint32), toKind(args[4], types.Uint32)})
		return toKind(r, types.Int32)
	})
}

// quicklz.c executed from its LLVM IR (vrt.QlzReal). The compressor's scratch buffer (hash
// table) is a sparse log region; source, destination and the decompressor's 16-byte scratch are
// the caller's real byte memories, so every out-of-object access is detected.
func qlzCK(fr *frame) *cKernels {
	ck := fr.i.env.CKernels
	if ck == nil || ck.funcs["qlz_decompress"] == nil {
		panic(engineAbort{psInconclusive, "quicklz.c not loaded"})
	}
	return ck
}

func qlzRealCompress(fr *frame, args []value) value {
	ck := qlzCK(fr)
	scratch := cPtrArg(args[3])
	reg := &logRegion{size: cap(scratch.mem)}
	r := ck.call(fr, "qlz_compress", []value{cPtrArg(args[0]), cPtrArg(args[1]), toKind(args[2], types.Uint64), llptr{reg: reg}})
	return toKind(r, types.Uint64)
}

func qlzRealDecompress(fr *frame, args []value) value {
	ck := qlzCK(fr)
	r := ck.call(fr, "qlz_decompress", []value{cPtrArg(args[0]), cPtrArg(args[1]), cPtrArg(args[2])})
	return toKind(r, types.Uint64)
}
