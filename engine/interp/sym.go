package interp

// Symbolic path context: decision vectors, path condition, solver interaction.

import (
	"fmt"
	"go/types"
	"os"
	"sort"
	"strings"

	"gosym/smt"
)

// sv is a symbolic scalar: an integer of Go basic kind k (bit-vector of that
// kind's width) or a bool (k == types.Bool, term of sort Bool).
type sv struct {
	t *smt.Term
	k types.BasicKind
}

func kindWidth(k types.BasicKind) int {
	switch k {
	case types.Int8, types.Uint8:
		return 8
	case types.Int16, types.Uint16:
		return 16
	case types.Int32, types.Uint32:
		return 32
	case types.Int, types.Int64, types.Uint, types.Uint64, types.Uintptr:
		return 64
	case types.Bool:
		return 0
	}
	panic(fmt.Sprintf("kindWidth: %v", k))
}

func kindSigned(k types.BasicKind) bool {
	switch k {
	case types.Int, types.Int8, types.Int16, types.Int32, types.Int64:
		return true
	}
	return false
}

// Decision is one entry of a path's decision vector.
type Decision struct {
	Kind  byte     `json:"k"` // 'b' branch, 'c' concretize, 'n' n-way choice
	Alt   int      `json:"a,omitempty"`
	Val   uint64   `json:"v,omitempty"`
	Other bool     `json:"o,omitempty"`
	Excl  []uint64 `json:"x,omitempty"`
	Tag   string   `json:"t,omitempty"`
}

type pathStatus int

const (
	psOK pathStatus = iota
	psViolation
	psCut          // assumption false / infeasible
	psInconclusive // bound hit, unknown, unsupported
	psEngineError
	psFailStop // target called Fatal / os.Exit
)

// engineAbort unwinds the whole interpreted path; never caught by target recover.
type engineAbort struct {
	status pathStatus
	reason string
}

type violation struct {
	Label    string
	KnownID  string // non-empty: classified as that known finding
	Model    map[string]uint64
	Prefix   []Decision
	Detail   string
	Observes []observed
}

type observed struct {
	Label string `json:"label"`
	Val   string `json:"val"`
}

// pathCtx is the per-path symbolic state.
type pathCtx struct {
	b          *smt.Builder
	s          *smt.Solver
	prefix     []Decision // decisions to replay
	pos        int
	taken      []Decision   // decisions actually taken on this path
	forks      [][]Decision // alternatives discovered on this path (complete prefixes)
	model      map[string]uint64
	modelValid bool
	varCount   map[string]int
	inconcl    []string // reasons (path continued, but verdict cannot be exhaustive)
	viol       *violation
	knownHits  []violation
	knownMemID, knownMemPat string
	reached    map[string]bool
	asserted   map[string]bool
	observes   []observed
	symDecisions int
	maxDecisions int
	maxConc      int
	nConcTmp     int
	replayModel  map[string]uint64 // when non-nil: concrete replay of a model (no solver)
	allocLimit   int64
	tags         []string
	pcTerms      []*smt.Term
	dirty        bool // solver state does not mirror pcTerms (after a one-shot query)
	incTimeoutMs int
}

func newPathCtx(s *smt.Solver, prefix []Decision) *pathCtx {
	s.Reset()
	return &pathCtx{
		b: smt.NewBuilder(), s: s, prefix: prefix,
		varCount: map[string]int{}, reached: map[string]bool{}, asserted: map[string]bool{},
		maxDecisions: 4000, maxConc: 300, incTimeoutMs: 2000,
	}
}

func (c *pathCtx) abort(st pathStatus, format string, args ...interface{}) {
	panic(engineAbort{st, fmt.Sprintf(format, args...)})
}

func (c *pathCtx) noteInconclusive(format string, args ...interface{}) {
	c.inconcl = append(c.inconcl, fmt.Sprintf(format, args...))
}

// freshVar creates the next instance of a named symbolic variable.
func (c *pathCtx) freshVar(name string, w int) *smt.Term {
	n := c.varCount[name]
	c.varCount[name] = n + 1
	return c.b.Var(fmt.Sprintf("%s#%d", name, n), w)
}

// sync makes the solver's assertion stack mirror the path condition again.
func (c *pathCtx) sync() {
	if !c.dirty {
		return
	}
	c.s.Reset()
	for _, t := range c.pcTerms {
		c.s.Assert(t)
	}
	c.dirty = false
}

// oneShot decides pc ∧ t without push/pop (z3 preprocessing tactics apply).
func (c *pathCtx) oneShot(t *smt.Term) (smt.Result, map[string]uint64) {
	if t.IsFalse() {
		return smt.Unsat, nil
	}
	r, m := c.s.CheckOneShot(c.pcTerms, t, c.b.Vars)
	c.dirty = true
	if r == smt.Unknown {
		r, m = c.s.CheckFallback(c.pcTerms, t, c.b.Vars)
	}
	return r, m
}

// addPC asserts t into the path condition.
func (c *pathCtx) addPC(t *smt.Term) {
	if t.IsTrue() {
		return
	}
	if !c.dirty {
		c.s.Assert(t)
	}
	c.pcTerms = append(c.pcTerms, t)
	if c.modelValid {
		if v, ok := smt.Eval(t, c.model, nil); !ok || v != 1 {
			c.modelValid = false
		}
	}
}

// feasible asks whether pc ∧ t is satisfiable; on Sat the model is cached in cand.
func (c *pathCtx) feasible(t *smt.Term) (smt.Result, map[string]uint64) {
	if t.IsFalse() {
		return smt.Unsat, nil
	}
	c.sync()
	c.s.SetTimeout(c.incTimeoutMs)
	c.s.Push()
	c.s.Assert(t)
	r := c.s.Check()
	var m map[string]uint64
	if r == smt.Sat {
		m = c.s.Model(c.b.Vars)
	}
	c.s.Pop()
	c.s.SetTimeout(c.s.TimeoutMs)
	if r == smt.Unknown {
		// retry from a fresh state with the full timeout
		if debugUnknown {
			fmt.Fprintf(os.Stderr, "incremental unknown (decisions so far %d): term size %d\n", len(c.taken), t.ID)
			dumpN++
			os.WriteFile(fmt.Sprintf("/tmp/unk_%d.smt2", dumpN), []byte(smt.DumpQuery(c.pcTerms, t)), 0644)
		}
		return c.oneShot(t)
	}
	return r, m
}

func (c *pathCtx) nextReplay(kind byte) *Decision {
	if c.pos < len(c.prefix) {
		d := &c.prefix[c.pos]
		if d.Kind != kind {
			c.abort(psEngineError, "replay divergence at decision %d: recorded kind %c, now %c", c.pos, d.Kind, kind)
		}
		c.pos++
		return d
	}
	return nil
}

func (c *pathCtx) countDecision() {
	c.symDecisions++
	if c.symDecisions > c.maxDecisions {
		c.abort(psInconclusive, "decision bound %d reached (unwind bound)", c.maxDecisions)
	}
}

func (c *pathCtx) forkWith(d Decision) {
	alt := make([]Decision, len(c.taken)+1)
	copy(alt, c.taken)
	alt[len(c.taken)] = d
	c.forks = append(c.forks, alt)
}

// branch decides a symbolic boolean; returns the side taken.
func (c *pathCtx) branch(cond *smt.Term, tag string) bool {
	if cond.IsConst() {
		return cond.Val == 1
	}
	c.countDecision()
	if d := c.nextReplay('b'); d != nil {
		side := d.Alt == 1
		if side {
			c.addPC(cond)
		} else {
			c.addPC(c.b.Not(cond))
		}
		c.taken = append(c.taken, Decision{Kind: 'b', Alt: d.Alt, Tag: tag})
		return side
	}
	if c.replayModel != nil {
		v, ok := smt.Eval(cond, c.replayModel, nil)
		if !ok {
			c.abort(psEngineError, "cannot evaluate branch condition under replay model")
		}
		c.taken = append(c.taken, Decision{Kind: 'b', Alt: int(v)})
		return v == 1
	}
	known := -1
	if c.modelValid {
		if v, ok := smt.Eval(cond, c.model, nil); ok {
			known = int(v)
		}
	}
	var feas [2]bool
	var models [2]map[string]uint64
	unknown := false
	for side := 1; side >= 0; side-- {
		if side == known {
			feas[side] = true
			models[side] = c.model
			continue
		}
		t := cond
		if side == 0 {
			t = c.b.Not(cond)
		}
		r, m := c.feasible(t)
		switch r {
		case smt.Sat:
			feas[side] = true
			models[side] = m
		case smt.Unknown:
			unknown = true
			c.noteInconclusive("solver unknown on branch feasibility (%s) %s", tag, c.s.LastErr)
		}
		// if this side is unsat and pc is sat, the other side is feasible
		if r == smt.Unsat && known < 0 && side == 1 {
			// skip the second query: pc is satisfiable by construction
			feas[0] = true
			models[0] = nil
			break
		}
	}
	if !feas[0] && !feas[1] {
		if unknown {
			c.abort(psInconclusive, "no side of branch could be decided (%s)", tag)
		}
		c.abort(psCut, "infeasible path (both sides unsat)")
	}
	side := 1
	if !feas[1] {
		side = 0
	} else if feas[0] {
		c.forkWith(Decision{Kind: 'b', Alt: 0})
	}
	if side == 1 {
		c.addPC(cond)
	} else {
		c.addPC(c.b.Not(cond))
	}
	if models[side] != nil {
		c.model, c.modelValid = models[side], true
	}
	c.taken = append(c.taken, Decision{Kind: 'b', Alt: side, Tag: tag})
	return side == 1
}

// choose is an n-way non-symbolic choice (schedule, crash point, harness Choice).
func (c *pathCtx) choose(n int, tag string) int {
	if n <= 1 {
		return 0
	}
	if d := c.nextReplay('n'); d != nil {
		if d.Alt >= n {
			c.abort(psEngineError, "replay divergence: choice %d of %d (%s)", d.Alt, n, tag)
		}
		c.taken = append(c.taken, Decision{Kind: 'n', Alt: d.Alt, Tag: tag})
		return d.Alt
	}
	if c.replayModel != nil {
		c.abort(psEngineError, "n-way choice beyond recorded prefix during model replay (%s)", tag)
	}
	c.countDecision()
	for a := n - 1; a >= 1; a-- {
		c.forkWith(Decision{Kind: 'n', Alt: a, Tag: tag})
	}
	c.taken = append(c.taken, Decision{Kind: 'n', Alt: 0, Tag: tag})
	return 0
}

// concretize forks over the feasible values of t and returns the value for this path.
func (c *pathCtx) concretize(t *smt.Term, tag string) uint64 {
	if t.IsConst() {
		return t.Val
	}
	c.countDecision()
	eqc := func(v uint64) *smt.Term {
		if t.W == 0 {
			return c.b.Eq(t, c.b.Bool(v == 1))
		}
		return c.b.Eq(t, c.b.Const(t.W, v))
	}
	var excl []uint64
	if d := c.nextReplay('c'); d != nil {
		if !d.Other {
			c.addPC(eqc(d.Val))
			c.taken = append(c.taken, Decision{Kind: 'c', Val: d.Val})
			return d.Val
		}
		excl = d.Excl
		for _, v := range excl {
			c.addPC(c.b.Not(eqc(v)))
		}
	} else if c.replayModel != nil {
		v, ok := smt.Eval(t, c.replayModel, nil)
		if !ok {
			c.abort(psEngineError, "cannot evaluate term under replay model")
		}
		c.taken = append(c.taken, Decision{Kind: 'c', Val: v})
		return v
	}
	if len(excl) >= c.maxConc {
		c.abort(psInconclusive, "more than %d feasible values for concretized term (%s)", c.maxConc, tag)
	}
	// pick a feasible value
	var v uint64
	got := false
	if c.modelValid {
		if mv, ok := smt.Eval(t, c.model, nil); ok {
			v, got = mv, true
		}
	}
	if !got {
		c.nConcTmp++
		tmp := c.b.Var(fmt.Sprintf("!conc%d", c.nConcTmp), t.W)
		c.sync()
		c.s.Push()
		c.s.Assert(c.b.Eq(tmp, t))
		r := c.s.Check()
		if r == smt.Sat {
			m := c.s.Model(c.b.Vars)
			v = m[tmp.Name]
			c.model, c.modelValid = m, true
			got = true
		}
		c.s.Pop()
		if r == smt.Unsat {
			c.abort(psCut, "no further value for concretized term (%s)", tag)
		}
		if r == smt.Unknown {
			c.abort(psInconclusive, "solver unknown while concretizing (%s) %s", tag, c.s.LastErr)
		}
	}
	nx := make([]uint64, len(excl)+1)
	copy(nx, excl)
	nx[len(excl)] = v
	c.forkWith(Decision{Kind: 'c', Other: true, Excl: nx, Tag: tag})
	c.addPC(eqc(v))
	c.taken = append(c.taken, Decision{Kind: 'c', Val: v})
	return v
}

// assume adds cond to the path condition, cutting the path if impossible.
func (c *pathCtx) assume(cond *smt.Term) {
	if cond.IsTrue() {
		return
	}
	if cond.IsFalse() {
		c.abort(psCut, "assumption false")
	}
	if c.replayModel != nil {
		v, ok := smt.Eval(cond, c.replayModel, nil)
		if !ok || v != 1 {
			c.abort(psCut, "assumption false under replay model")
		}
		return
	}
	if c.pos < len(c.prefix) {
		// replaying: known satisfiable further down
		c.addPC(cond)
		return
	}
	if c.modelValid {
		if v, ok := smt.Eval(cond, c.model, nil); ok && v == 1 {
			c.addPC(cond)
			return
		}
	}
	r, m := c.feasible(cond)
	switch r {
	case smt.Unsat:
		c.abort(psCut, "assumption unsatisfiable")
	case smt.Unknown:
		c.noteInconclusive("solver unknown on assumption %s", c.s.LastErr)
	}
	c.addPC(cond)
	if m != nil {
		c.model, c.modelValid = m, true
	}
}

// check asserts a property. knownID/isKnown implement the known-finding split.
func (c *pathCtx) check(label string, cond *smt.Term, knownID string, isKnown *smt.Term) {
	c.asserted[label] = true
	if cond.IsTrue() {
		return
	}
	if c.replayModel != nil {
		v, ok := smt.Eval(cond, c.replayModel, nil)
		if ok && v == 1 {
			return
		}
		c.viol = &violation{Label: label, Model: c.replayModel}
		c.abort(psViolation, "assertion %q fails under replay model", label)
	}
	neg := c.b.Not(cond)
	if knownID != "" && isKnown != nil {
		// different violation than the known one?
		r, m := c.feasible(c.b.And(neg, c.b.Not(isKnown)))
		if r == smt.Sat {
			c.viol = &violation{Label: label, Model: m, Prefix: append([]Decision(nil), c.taken...)}
			c.abort(psViolation, "assertion %q violated", label)
		}
		if r == smt.Unknown {
			c.noteInconclusive("solver unknown on assertion %q %s", label, c.s.LastErr)
		}
		r2, m2 := c.feasible(c.b.And(neg, isKnown))
		if r2 == smt.Sat {
			c.knownHits = append(c.knownHits, violation{Label: label, KnownID: knownID, Model: m2, Prefix: append([]Decision(nil), c.taken...)})
		} else if r2 == smt.Unknown {
			c.noteInconclusive("solver unknown on assertion %q (known split) %s", label, c.s.LastErr)
		}
		// continue on the paths where the property holds
		c.assume(cond)
		return
	}
	r, m := c.feasible(neg)
	switch r {
	case smt.Sat:
		c.viol = &violation{Label: label, Model: m, Prefix: append([]Decision(nil), c.taken...)}
		c.abort(psViolation, "assertion %q violated", label)
	case smt.Unknown:
		c.noteInconclusive("solver unknown on assertion %q %s", label, c.s.LastErr)
	}
	c.addPC(cond)
}

// pcModel returns a model of the current path condition.
func (c *pathCtx) pcModel() map[string]uint64 {
	if c.replayModel != nil {
		return c.replayModel
	}
	if c.modelValid {
		return c.model
	}
	c.sync()
	r := c.s.Check()
	if r == smt.Sat {
		c.model, c.modelValid = c.s.Model(c.b.Vars), true
		return c.model
	}
	return nil
}

func fmtDecisions(ds []Decision) string {
	var sb strings.Builder
	for _, d := range ds {
		switch d.Kind {
		case 'b':
			fmt.Fprintf(&sb, "b%d ", d.Alt)
		case 'n':
			fmt.Fprintf(&sb, "n%d ", d.Alt)
		case 'c':
			if d.Other {
				fmt.Fprintf(&sb, "c!%v ", d.Excl)
			} else {
				fmt.Fprintf(&sb, "c=%d ", d.Val)
			}
		}
	}
	return strings.TrimSpace(sb.String())
}

func sortedKeys(m map[string]bool) []string {
	var ks []string
	for k := range m {
		ks = append(ks, k)
	}
	sort.Strings(ks)
	return ks
}

var debugUnknown = os.Getenv("GOSYM_DEBUG_UNKNOWN") != ""

var dumpN int
