package interp

// Strings with symbolic bytes.

import (
	"go/types"

	"gosym/smt"
)

func strBytes(v value) []value {
	switch s := v.(type) {
	case string:
		r := make([]value, len(s))
		for i := 0; i < len(s); i++ {
			r[i] = s[i]
		}
		return r
	case symstr:
		return s.b
	}
	panic(engineAbort{psEngineError, "strBytes: not a string"})
}

// mkStr builds a string value from bytes (copying), normalising to a Go string
// when every byte is concrete.
func mkStr(b []value) value {
	allc := true
	for _, x := range b {
		switch x.(type) {
		case uint8:
		case sv:
			allc = false
		case poison:
			panic(memError("use of freed C memory (string conversion)"))
		default:
			panic(engineAbort{psEngineError, "mkStr: unexpected element"})
		}
		if !allc {
			break
		}
	}
	if allc {
		bs := make([]byte, len(b))
		for i, x := range b {
			bs[i] = x.(uint8)
		}
		return string(bs)
	}
	for _, x := range b {
		if _, ok := x.(poison); ok {
			panic(memError("use of freed C memory (string conversion)"))
		}
	}
	c := make([]value, len(b))
	copy(c, b)
	return symstr{c}
}

func strLen(v value) int {
	switch s := v.(type) {
	case string:
		return len(s)
	case symstr:
		return len(s.b)
	}
	panic(engineAbort{psEngineError, "strLen: not a string"})
}

func findBuilder(bs ...[]value) *smt.Builder {
	for _, b := range bs {
		for _, x := range b {
			if s, ok := x.(sv); ok {
				return s.t.B
			}
		}
	}
	return nil
}

// strEq returns a bool or symbolic bool for x == y.
func strEq(x, y value) value {
	if xs, ok := x.(string); ok {
		if ys, ok := y.(string); ok {
			return xs == ys
		}
	}
	xb, yb := strBytes(x), strBytes(y)
	if len(xb) != len(yb) {
		return false
	}
	return bytesEq(xb, yb)
}

func bytesEq(xb, yb []value) value {
	b := findBuilder(xb, yb)
	if b == nil {
		for i := range xb {
			if xb[i].(uint8) != yb[i].(uint8) {
				return false
			}
		}
		return true
	}
	acc := b.True()
	for i := range xb {
		tx, _ := termOf(b, xb[i])
		ty, _ := termOf(b, yb[i])
		acc = b.And(acc, b.Eq(tx, ty))
		if acc.IsFalse() {
			return false
		}
	}
	return mkSV(acc, types.Bool)
}

// strLess returns x < y lexicographically (bool or symbolic bool).
func strLess(x, y value) value {
	if xs, ok := x.(string); ok {
		if ys, ok := y.(string); ok {
			return xs < ys
		}
	}
	xb, yb := strBytes(x), strBytes(y)
	return bytesLess(xb, yb)
}

func bytesLess(xb, yb []value) value {
	b := findBuilder(xb, yb)
	n := len(xb)
	if len(yb) < n {
		n = len(yb)
	}
	if b == nil {
		for i := 0; i < n; i++ {
			if xb[i].(uint8) != yb[i].(uint8) {
				return xb[i].(uint8) < yb[i].(uint8)
			}
		}
		return len(xb) < len(yb)
	}
	// build from the end: less_i = x[i]<y[i] || (x[i]==y[i] && less_{i+1})
	acc := b.Bool(len(xb) < len(yb))
	for i := n - 1; i >= 0; i-- {
		tx, _ := termOf(b, xb[i])
		ty, _ := termOf(b, yb[i])
		acc = b.Or(b.Ult(tx, ty), b.And(b.Eq(tx, ty), acc))
	}
	return mkSV(acc, types.Bool)
}

func boolNot(v value) value {
	switch x := v.(type) {
	case bool:
		return !x
	case sv:
		return mkSV(x.t.B.Not(x.t), types.Bool)
	}
	panic(engineAbort{psEngineError, "boolNot"})
}

// decideBool forces a (possibly symbolic) bool to a concrete one by branching.
func decideBool(v value) bool {
	switch x := v.(type) {
	case bool:
		return x
	case sv:
		return ctxOf(x.t.B).branch(x.t, "decide")
	}
	panic(engineAbort{psEngineError, "decideBool: not a bool"})
}

// concInt forces a (possibly symbolic) integer to a concrete int64 by forking
// over its feasible values.
func concInt(v value, tag string) int64 {
	if s, ok := v.(sv); ok {
		raw := ctxOf(s.t.B).concretize(s.t, tag)
		if kindSigned(s.k) {
			sh := uint(64 - s.t.W)
			return int64(raw<<sh) >> sh
		}
		return int64(raw)
	}
	return asInt64(v)
}

// symstrIter ranges over a string with symbolic bytes; symbolic bytes are
// required (by forking) to be ASCII, otherwise the path is inconclusive.
type symstrIter struct {
	s symstr
	i int
}

func (it *symstrIter) next() tuple {
	if it.i >= len(it.s.b) {
		return tuple{false, nil, nil}
	}
	i := it.i
	it.i++
	switch x := it.s.b[i].(type) {
	case uint8:
		if x >= 0x80 {
			panic(engineAbort{psInconclusive, "range over string with non-ASCII bytes mixed with symbolic bytes"})
		}
		return tuple{true, i, int32(x)}
	case sv:
		b := x.t.B
		if !ctxOf(b).branch(b.Ult(x.t, b.Const(8, 0x80)), "range-ascii") {
			panic(engineAbort{psInconclusive, "range over string: symbolic non-ASCII byte (multi-byte runes not modelled)"})
		}
		return tuple{true, i, mkSV(b.Zext(x.t, 32), types.Int32)}
	}
	panic(engineAbort{psEngineError, "symstrIter"})
}
