package main

// `gosym check`: run the harnesses registered for one property, replay
// counterexamples and path witnesses against the native build, apply the
// known-findings file, write evidence and set the exit code.

import (
	"encoding/json"
	"fmt"
	"os"
	"os/exec"
	"path/filepath"
	"regexp"
	"sort"
	"strconv"
	"strings"
	"time"

	"gosym/interp"
)

type harnessSpec struct {
	Pkg        string  `json:"pkg"`
	Name       string  `json:"name"`
	Kind       string  `json:"kind"`   // K/U/S/T/X
	What       string  `json:"what"`   // one line
	Bounds     string  `json:"bounds"` // stated bound (quick → thorough)
	QuickSecs  float64 `json:"quick_secs"`
	ThorSecs   float64 `json:"thorough_secs"`
	ThorOnly   bool    `json:"thorough_only"`
	NoNative   bool    `json:"no_native"` // counterexamples cannot be replayed natively (documented why)
	NoNativeWhy string `json:"no_native_why"`
	Workers    int     `json:"workers"`
	NativeASan bool    `json:"native_asan"` // native replays run under AddressSanitizer (go test -asan): C memory errors become confirmable
}

type propSpec struct {
	Title       string        `json:"title"`
	Harnesses   []harnessSpec `json:"harnesses"`
	Assumptions []string      `json:"assumptions"`
	Outside     string        `json:"outside"`
}

type knownFile struct {
	Findings []knownFinding `json:"findings"`
	Fixed    []string       `json:"fixed"`
}
type knownFinding struct {
	ID       string `json:"id"`
	Property string `json:"property"`
	What     string `json:"what"`
	// Also lists further properties whose checks share the harness that exhibits the finding
	Also []string `json:"also_seen_under,omitempty"`
}

type replayFile struct {
	Harness   string             `json:"harness"`
	Pkg       string             `json:"pkg"`
	Property  string             `json:"property"`
	Label     string             `json:"label"`
	Detail    string             `json:"detail"`
	Vars      map[string]uint64  `json:"vars"`
	Choices   []int              `json:"choices"`
	Observes  interface{}        `json:"observes"`
	Decisions []interp.Decision  `json:"decisions"`
	Tier      int                `json:"tier"`
}

var verifDir = "/verif"

// outDir receives everything a run writes (evidence, replays, scratch builds). It is
// verifDir unless VERIF_OUT is set (used to run the checks against a scratch worktree
// carrying a seeded change without touching /verif's evidence).
func outDir() string {
	if o := os.Getenv("VERIF_OUT"); o != "" {
		return o
	}
	return verifDir
}

func workDir() string {
	d := filepath.Join(outDir(), ".work")
	os.MkdirAll(d, 0755)
	return d
}

// nativeBuilder compiles the native replay test binary for a package once.
type nativeBuilder struct {
	repo, hdir string
	bins       map[string]string
	errs       map[string]string
	dropped    map[string]string // overlay destinations that do not type-check on this tree
	BuildSecs  float64
}

var funcRe = regexp.MustCompile(`(?m)^func (VH_[A-Za-z0-9_]+)\(\)`)

func (nb *nativeBuilder) bin(pkg0 string, asan bool) (string, error) {
	pkg := pkg0
	key := pkg0
	if asan {
		key += "+asan"
	}
	if b, ok := nb.bins[key]; ok {
		if b == "" {
			return "", fmt.Errorf("%s", nb.errs[key])
		}
		return b, nil
	}
	t0 := time.Now()
	defer func() { nb.BuildSecs += time.Since(t0).Seconds() }()
	wd := workDir()
	repl := map[string]string{}
	// vrt package
	vfiles, _ := filepath.Glob(filepath.Join(nb.hdir, "zzvrt", "*.go"))
	for _, f := range vfiles {
		repl[filepath.Join(nb.repo, "zzvrt", filepath.Base(f))] = f
	}
	// harness files of every package (helpers exported across packages live in overlays too)
	if dirs, err := os.ReadDir(nb.hdir); err == nil {
		for _, d := range dirs {
			if !d.IsDir() || d.Name() == "zzvrt" || d.Name() == pkg {
				continue
			}
			others, _ := filepath.Glob(filepath.Join(nb.hdir, d.Name(), "*.go"))
			for _, f := range others {
				dst := filepath.Join(nb.repo, d.Name(), "zz_verif_"+filepath.Base(f))
				if _, bad := nb.dropped[dst]; !bad {
					repl[dst] = f
				}
			}
		}
	}
	files, _ := filepath.Glob(filepath.Join(nb.hdir, pkg, "*.go"))
	var names []string
	pkgName := ""
	for _, f := range files {
		dst := filepath.Join(nb.repo, pkg, "zz_verif_"+filepath.Base(f))
		if _, bad := nb.dropped[dst]; bad {
			continue
		}
		repl[dst] = f
		b, _ := os.ReadFile(f)
		for _, m := range funcRe.FindAllStringSubmatch(string(b), -1) {
			names = append(names, m[1])
		}
		if m := regexp.MustCompile(`(?m)^package (\w+)`).FindStringSubmatch(string(b)); m != nil {
			pkgName = m[1]
		}
	}
	sort.Strings(names)
	var sb strings.Builder
	fmt.Fprintf(&sb, "//go:build verif\n\npackage %s\n\nimport (\n\t\"fmt\"\n\t\"testing\"\n\tvrt \"github.com/douban/gobeansdb/zzvrt\"\n)\n\nvar vrtRegistry = map[string]func(){\n", pkgName)
	for _, n := range names {
		fmt.Fprintf(&sb, "\t%q: %s,\n", n, n)
	}
	sb.WriteString("}\n\nfunc TestVerifReplay(t *testing.T) {\n\tfn := vrtRegistry[vrt.Harness()]\n\tif fn == nil {\n\t\tt.Fatalf(\"no harness %q\", vrt.Harness())\n\t}\n\tp := vrt.RunNative(fn)\n\tvrt.Cleanup()\n\tif p != nil {\n\t\tfmt.Printf(\"NATIVE-PANIC %v\\n\", p)\n\t}\n\tfmt.Print(vrt.Report())\n}\n")
	reg := filepath.Join(wd, "registry_"+strings.ReplaceAll(pkg, "/", "_")+"_test.go")
	os.WriteFile(reg, []byte(sb.String()), 0644)
	repl[filepath.Join(nb.repo, pkg, "zz_verif_registry_test.go")] = reg
	ovb, _ := json.Marshal(map[string]interface{}{"Replace": repl})
	ovf := filepath.Join(wd, "overlay_"+strings.ReplaceAll(pkg, "/", "_")+".json")
	os.WriteFile(ovf, ovb, 0644)
	out := filepath.Join(wd, strings.ReplaceAll(pkg, "/", "_")+".test")
	goArgs := []string{"test", "-c", "-vet=off", "-tags", "verif", "-overlay", ovf}
	if asan {
		out = filepath.Join(wd, strings.ReplaceAll(pkg, "/", "_")+".asan.test")
		goArgs = append(goArgs, "-asan")
	}
	goArgs = append(goArgs, "-o", out, "./"+pkg)
	cmd := exec.Command("go", goArgs...)
	cmd.Dir = nb.repo
	cmd.Env = append(os.Environ(), "GOFLAGS=-mod=mod", "GOPROXY=off", "GOSUMDB=off", "GOTOOLCHAIN=local")
	b, err := cmd.CombinedOutput()
	if err != nil {
		nb.bins[key] = ""
		nb.errs[key] = fmt.Sprintf("native build of %s failed: %v\n%s", key, err, b)
		return "", fmt.Errorf("%s", nb.errs[key])
	}
	nb.bins[key] = out
	return out, nil
}

type nativeResult struct {
	Violations []string
	Panic      string
	AssumeFail bool
	Mismatch   int
	ObsCount   int
	Done       bool
	Raw        string
}

func (nb *nativeBuilder) replay(pkg, replayPath string, asan ...bool) (nativeResult, error) {
	var nr nativeResult
	bin, err := nb.bin(pkg, len(asan) > 0 && asan[0])
	if err != nil {
		return nr, err
	}
	rd, _ := os.MkdirTemp(workDir(), "run")
	defer os.RemoveAll(rd)
	cmd := exec.Command("timeout", "120", bin, "-test.run", "^TestVerifReplay$", "-test.count=1")
	cmd.Dir = rd
	cmd.Env = append(os.Environ(), "VERIF_REPLAY="+replayPath, "TMPDIR="+rd, "ASAN_OPTIONS=detect_leaks=0")
	b, _ := cmd.CombinedOutput()
	nr.Raw = string(b)
	for _, line := range strings.Split(nr.Raw, "\n") {
		switch {
		case strings.HasPrefix(line, "NATIVE-VIOLATION "):
			nr.Violations = append(nr.Violations, strings.TrimPrefix(line, "NATIVE-VIOLATION "))
		case strings.HasPrefix(line, "NATIVE-PANIC "):
			nr.Panic = strings.TrimPrefix(line, "NATIVE-PANIC ")
		case strings.HasPrefix(line, "NATIVE-ASSUME-FAILED"):
			nr.AssumeFail = true
		case strings.HasPrefix(line, "NATIVE-OBSERVE-MISMATCH"), strings.HasPrefix(line, "NATIVE-OBSERVE-COUNT"):
			nr.Mismatch++
		case strings.HasPrefix(line, "NATIVE-DONE"):
			nr.Done = true
			if m := regexp.MustCompile(`observes=(\d+)`).FindStringSubmatch(line); m != nil {
				nr.ObsCount, _ = strconv.Atoi(m[1])
			}
		case strings.HasPrefix(line, "panic:") || strings.HasPrefix(line, "fatal error:") || strings.Contains(line, "SIGSEGV") || strings.Contains(line, "ERROR: AddressSanitizer") ||
			strings.Contains(line, "SIGABRT") || strings.Contains(line, "double free") || strings.Contains(line, "free(): invalid") || strings.Contains(line, "malloc(): ") || strings.Contains(line, "corrupted "):
			// the C allocator's own consistency checks abort the process (glibc) on a double or invalid free
			if nr.Panic == "" {
				nr.Panic = line
			}
		}
	}
	return nr, nil
}

func writeReplay(prop string, h harnessSpec, tier int, label, detail string, model map[string]uint64, choices []int, observes interface{}, decisions []interp.Decision, final bool) string {
	dir := filepath.Join(outDir(), "replays")
	if !final {
		dir = workDir()
	}
	os.MkdirAll(dir, 0755)
	rf := replayFile{Harness: h.Name, Pkg: h.Pkg, Property: prop, Label: label, Detail: detail, Vars: model, Choices: choices, Observes: observes, Decisions: decisions, Tier: tier}
	if rf.Vars == nil {
		rf.Vars = map[string]uint64{}
	}
	b, _ := json.MarshalIndent(rf, "", " ")
	safe := regexp.MustCompile(`[^A-Za-z0-9_.-]+`).ReplaceAllString(label, "_")
	if len(safe) > 40 {
		safe = safe[:40]
	}
	p := filepath.Join(dir, fmt.Sprintf("%s_%s_%s_%d.json", prop, h.Name, safe, time.Now().UnixNano()%1e9))
	os.WriteFile(p, b, 0644)
	return p
}

func labelMatches(nv []string, label string) bool {
	for _, v := range nv {
		if v == label || strings.HasPrefix(v, label+" [known:") {
			return true
		}
	}
	return false
}

func runCheck(args []string) int {
	fs := newFlagSet("check")
	prop := fs.String("property", "", "property id")
	tierName := fs.String("tier", "quick", "quick|thorough")
	repo := fs.String("repo", "/repo", "")
	workers := fs.Int("workers", 14, "")
	only := fs.String("only", "", "run only harnesses whose name contains this")
	noNative := fs.Bool("no-native", false, "skip native validation (debugging)")
	verbose := fs.Bool("v", false, "")
	fs.Parse(args)
	if vd := os.Getenv("VERIF_DIR"); vd != "" {
		verifDir = vd
	}
	if t := os.Getenv("VERIF_TIER"); t != "" && *tierName == "" {
		*tierName = t
	}
	tier := 0
	if *tierName == "thorough" {
		tier = 1
	}
	seed, _ := strconv.ParseInt(os.Getenv("VERIF_SEED"), 10, 64)
	t0 := time.Now()
	hdir := filepath.Join(verifDir, "harness")

	var specs map[string]propSpec
	b, err := os.ReadFile(filepath.Join(verifDir, "checks.json"))
	if err != nil {
		fmt.Fprintln(os.Stderr, err)
		return 2
	}
	if err := json.Unmarshal(b, &specs); err != nil {
		fmt.Fprintln(os.Stderr, "checks.json:", err)
		return 2
	}
	ps, ok := specs[*prop]
	if !ok {
		fmt.Fprintf(os.Stderr, "no checks registered for %s\n", *prop)
		return 2
	}
	var known knownFile
	if kb, err := os.ReadFile(filepath.Join(verifDir, "known_findings.json")); err == nil {
		json.Unmarshal(kb, &known)
	}
	knownFor := map[string]knownFinding{}
	for _, k := range known.Findings {
		if k.Property == *prop {
			knownFor[k.ID] = k
		}
		for _, a := range k.Also {
			if a == *prop {
				knownFor[k.ID] = k
			}
		}
	}

	// load all packages needed
	pkgset := map[string]bool{}
	for _, h := range ps.Harnesses {
		pkgset[h.Pkg] = true
	}
	patterns := []string{"./zzvrt"}
	for p := range pkgset {
		patterns = append(patterns, "./"+p)
	}
	sort.Strings(patterns)
	ov, err := interp.BuildOverlay(hdir, *repo)
	if err != nil {
		fmt.Fprintln(os.Stderr, err)
		return 2
	}
	env, dropped, err := interp.LoadTolerant(*repo, ov, patterns, "verif")
	for f, e := range dropped {
		fmt.Printf("HARNESS-FILE-DROPPED %s: does not type-check against the current tree: %s\n", filepath.Base(f), e)
	}
	if err != nil {
		fmt.Fprintln(os.Stderr, "gosym: load failed (the tree must compile with the harness overlay):", err)
		return 2
	}
	env.Tier = tier
	nb := &nativeBuilder{repo: *repo, hdir: hdir, bins: map[string]string{}, errs: map[string]string{}, dropped: dropped}

	type hres struct {
		Spec       harnessSpec            `json:"spec"`
		Paths      int                    `json:"paths"`
		OK         int                    `json:"ok"`
		Cut        int                    `json:"cut"`
		FailStop   int                    `json:"fail_stop"`
		Inconcl    int                    `json:"inconclusive"`
		Steps      int64                  `json:"ssa_instructions"`
		Branches   int64                  `json:"symbolic_branches"`
		Queries    int                    `json:"queries"`
		Sat        int                    `json:"sat"`
		Unsat      int                    `json:"unsat"`
		Unknown    int                    `json:"unknown"`
		Fallback   int                    `json:"decided_by_fallback_solver"`
		SolverSecs float64                `json:"solver_secs"`
		WallSecs   float64                `json:"wall_secs"`
		Exhaustive bool                   `json:"exhaustive_within_bound"`
		Stopped    string                 `json:"stopped,omitempty"`
		Why        map[string]int         `json:"inconclusive_reasons,omitempty"`
		Reached    []string               `json:"assertions_reached"`
		NativeOK   int                    `json:"native_traces_agreeing"`
		NativeBad  int                    `json:"native_traces_disagreeing"`
		Funcs      int                    `json:"functions_executed"`
		MaxDepth   int                    `json:"max_decisions_on_a_path"`
	}
	var hresults []hres
	var samples []interface{}
	funcsAll := map[string]bool{}
	totalPaths, totalSteps := 0, int64(0)
	nativeOK := 0
	violations := 0
	inconclusive := 0
	var lines []string
	knownPrinted := map[string]bool{}

	for _, h := range ps.Harnesses {
		if h.ThorOnly && tier == 0 {
			continue
		}
		if *only != "" && !strings.Contains(h.Name, *only) {
			continue
		}
		fn, err := env.Harness(h.Pkg, h.Name)
		if err != nil {
			if len(dropped) > 0 {
				inconclusive++
				lines = append(lines, fmt.Sprintf("INCONCLUSIVE harness=%s: its source file does not type-check against the current tree (see HARNESS-FILE-DROPPED)", h.Name))
				hresults = append(hresults, hres{Spec: h, Stopped: "harness file dropped: does not type-check against the current tree"})
				continue
			}
			fmt.Fprintln(os.Stderr, "gosym:", err)
			return 2
		}
		secs := h.QuickSecs
		if tier == 1 && h.ThorSecs > 0 {
			secs = h.ThorSecs
		}
		if secs == 0 {
			secs = 120
		}
		w := *workers
		if h.Workers > 0 {
			w = h.Workers
		}
		second := ""
		if tier == 1 {
			second = "cvc5"
		}
		tmo := 10000
		if tier == 1 {
			tmo = 60000
		}
		r := env.Explore(fn, interp.ExploreOpts{Workers: w, Solver: "z3", Second: second, TimeoutMs: tmo, MaxSeconds: secs, Seed: seed, SampleModels: 4, Verbose: *verbose})
		hr := hres{Spec: h, Paths: r.Paths, OK: r.OK, Cut: r.Cut, FailStop: r.FailStop, Inconcl: r.Inconcl + r.EngineErr, Steps: r.Steps, Branches: r.Branches,
			Queries: r.Stats.Queries, Sat: r.Stats.NSat, Unsat: r.Stats.NUnsat, Unknown: r.Stats.NUnknown, Fallback: r.Stats.Fallback, SolverSecs: r.Stats.SolverSec, WallSecs: r.WallSecs,
			Exhaustive: r.Exhaustive, Stopped: r.StoppedWhy, Why: r.InconclWhy, Funcs: len(r.Funcs), MaxDepth: r.MaxDepth}
		for k := range r.Reached {
			hr.Reached = append(hr.Reached, k)
		}
		sort.Strings(hr.Reached)
		for f := range r.Funcs {
			funcsAll[f] = true
		}
		totalPaths += r.Paths
		totalSteps += r.Steps
		if !r.Exhaustive {
			inconclusive++
			lines = append(lines, fmt.Sprintf("INCONCLUSIVE harness=%s stopped=%q reasons=%v", h.Name, r.StoppedWhy, r.InconclWhy))
		}
		if len(r.Asserted) == 0 && r.OK > 0 {
			inconclusive++
			lines = append(lines, fmt.Sprintf("VACUOUS harness=%s: no assertion was reached", h.Name))
		}
		// vacuity: ok paths must exist
		if r.OK == 0 && len(r.Violations) == 0 && len(r.KnownHits) == 0 {
			inconclusive++
			lines = append(lines, fmt.Sprintf("VACUOUS harness=%s: no path completed", h.Name))
		}

		// translator validation on witnesses
		if !*noNative && !h.NoNative {
			for _, wtn := range r.Witnesses {
				rp := writeReplay(*prop, h, tier, "witness", "", wtn.Model, wtn.Choices, wtn.Observes, wtn.Decisions, false)
				nr, err := nb.replay(h.Pkg, rp, h.NativeASan)
				os.Remove(rp)
				if err != nil {
					lines = append(lines, "INCONCLUSIVE native build: "+err.Error())
					inconclusive++
					break
				}
				if nr.Done && len(nr.Violations) == 0 && nr.Panic == "" && !nr.AssumeFail && nr.Mismatch == 0 {
					hr.NativeOK++
					nativeOK++
				} else {
					hr.NativeBad++
					inconclusive++
					lines = append(lines, fmt.Sprintf("INCONCLUSIVE (encoder) harness=%s: native run of a passing path disagrees: violations=%v panic=%q assumeFail=%v mismatches=%d\n%s", h.Name, nr.Violations, nr.Panic, nr.AssumeFail, nr.Mismatch, tail(nr.Raw, 12)))
				}
			}
		}
		for _, wtn := range r.Witnesses {
			if len(samples) < 6 {
				samples = append(samples, map[string]interface{}{"harness": h.Name, "decisions": len(wtn.Decisions), "model": wtn.Model, "choices": wtn.Choices, "tags": wtn.Tags, "ssa_steps": wtn.Steps})
			}
		}

		// violations: replay natively before reporting. Several counterexamples may share a
		// label; up to 6 per label are tried until one reproduces (a counterexample that leans on
		// a stub behaving unlike the real thing does not reproduce and is skipped).
		byLabel := map[string][]interp.ViolationInfo{}
		var labelOrder []string
		for _, v := range r.ViolationInfos() {
			if _, ok := byLabel[v.Label]; !ok {
				labelOrder = append(labelOrder, v.Label)
			}
			if len(byLabel[v.Label]) < 6 {
				byLabel[v.Label] = append(byLabel[v.Label], v)
			}
		}
		for _, label := range labelOrder {
			cands := byLabel[label]
			if *noNative || h.NoNative {
				v := cands[0]
				rp := writeReplay(*prop, h, tier, v.Label, v.Detail, v.Model, v.Choices, v.Observes, v.Decisions, true)
				if h.NoNative {
					lines = append(lines, fmt.Sprintf("VIOLATION property=%s replay=%s", *prop, rp))
					lines = append(lines, fmt.Sprintf("  harness=%s label=%q detail=%q (not replayable natively: %s)", h.Name, v.Label, v.Detail, h.NoNativeWhy))
					violations++
				} else {
					lines = append(lines, fmt.Sprintf("UNCONFIRMED harness=%s label=%q detail=%q replay=%s", h.Name, v.Label, v.Detail, rp))
					inconclusive++
				}
				continue
			}
			confirmedAny := false
			var lastNR nativeResult
			var lastRP string
			buildErr := false
			for _, v := range cands {
				rp := writeReplay(*prop, h, tier, v.Label, v.Detail, v.Model, v.Choices, v.Observes, v.Decisions, true)
				nr, err := nb.replay(h.Pkg, rp, h.NativeASan)
				if err != nil {
					lines = append(lines, "INCONCLUSIVE native build: "+err.Error())
					inconclusive++
					buildErr = true
					break
				}
				confirmed := labelMatches(nr.Violations, v.Label) || (v.Label == "uncaught-panic" && nr.Panic != "") || (strings.HasPrefix(v.Label, "engine:") && (nr.Panic != "" || len(nr.Violations) > 0))
				if !confirmed && strings.HasPrefix(v.Label, "engine:memory-safety") && !h.NativeASan {
					// a C memory error need not crash an ordinary build: ask AddressSanitizer
					if nr2, err2 := nb.replay(h.Pkg, rp, true); err2 == nil && nr2.Panic != "" {
						nr, confirmed = nr2, true
					}
				}
				if confirmed {
					confirmedAny = true
					violations++
					lines = append(lines, fmt.Sprintf("VIOLATION property=%s replay=%s", *prop, rp))
					lines = append(lines, fmt.Sprintf("  harness=%s label=%q detail=%q model=%v choices=%v", h.Name, v.Label, v.Detail, trimModel(v.Model), v.Choices))
					break
				}
				os.Remove(rp)
				lastNR, lastRP = nr, rp
			}
			if !confirmedAny && !buildErr {
				inconclusive++
				lines = append(lines, fmt.Sprintf("INCONCLUSIVE (encoder) harness=%s: %d counterexample(s) for %q did not reproduce natively (last native run: violations=%v panic=%q done=%v) replay=%s\n%s", h.Name, len(cands), label, lastNR.Violations, lastNR.Panic, lastNR.Done, lastRP, tail(lastNR.Raw, 12)))
			}
		}
		// known findings
		seenK := map[string]bool{}
		for _, v := range r.KnownInfos() {
			key := v.KnownID + "/" + v.Label
			if seenK[key] {
				continue
			}
			seenK[key] = true
			kf, listed := knownFor[v.KnownID]
			rp := writeReplay(*prop, h, tier, v.Label+"_"+v.KnownID, v.Detail, v.Model, v.Choices, v.Observes, v.Decisions, !listed)
			confirmed := true
			if !*noNative && !h.NoNative {
				nr, err := nb.replay(h.Pkg, rp, h.NativeASan)
				confirmed = err == nil && (labelMatches(nr.Violations, v.Label) || (strings.HasPrefix(v.Label, "engine:") && nr.Panic != ""))
			}
			if listed {
				os.Remove(rp)
			}
			switch {
			case !confirmed:
				inconclusive++
				lines = append(lines, fmt.Sprintf("INCONCLUSIVE (encoder) harness=%s: known-finding witness %s for %q did not reproduce natively", h.Name, v.KnownID, v.Label))
			case listed:
				if !knownPrinted[v.KnownID] {
					knownPrinted[v.KnownID] = true
					lines = append(lines, fmt.Sprintf("KNOWN-FINDING: property=%s %s: %s (harness %s, assertion %q)", *prop, kf.ID, kf.What, h.Name, v.Label))
				}
			default:
				violations++
				lines = append(lines, fmt.Sprintf("VIOLATION property=%s replay=%s", *prop, rp))
				lines = append(lines, fmt.Sprintf("  harness=%s label=%q classified as %s which is not listed in known_findings.json", h.Name, v.Label, v.KnownID))
			}
		}
		hresults = append(hresults, hr)
		fmt.Fprintf(os.Stderr, "%s %s: paths=%d ok=%d cut=%d failstop=%d inconcl=%d viol=%d known=%d queries=%d solver=%.1fs wall=%.1fs exhaustive=%v native_ok=%d\n",
			*prop, h.Name, r.Paths, r.OK, r.Cut, r.FailStop, hr.Inconcl, len(r.Violations), len(r.KnownHits), r.Stats.Queries, r.Stats.SolverSec, r.WallSecs, r.Exhaustive, hr.NativeOK)
	}

	for _, l := range lines {
		fmt.Println(l)
	}
	var fl []string
	for f := range funcsAll {
		if strings.Contains(f, "gobeansdb") && !strings.Contains(f, "VH_") && !strings.Contains(f, "zzvrt") {
			fl = append(fl, f)
		}
	}
	sort.Strings(fl)
	if len(samples) == 0 {
		samples = append(samples, map[string]interface{}{"note": "no completed path produced a witness in this run"})
	}
	var bounds []string
	for _, h := range hresults {
		bounds = append(bounds, h.Spec.Name+": "+h.Spec.Bounds)
	}
	ev := map[string]interface{}{
		"property_id": *prop,
		"tier":        *tierName,
		"seed":        seed,
		"level":       "model_checking",
		"coverage": map[string]interface{}{
			"states":                        max1(totalPaths),
			"transitions":                   max1(int(totalSteps)),
			"traces_validated_against_impl": nativeOK,
			"samples":                       samples,
			"exhaustive":                    inconclusive == 0 && violations == 0,
			"explanation":                   "states = complete symbolic paths of the real code explored (each covers every input satisfying its path condition); transitions = SSA instructions interpreted; every assertion on every path decided by z3 (unsat of path-condition ∧ ¬assertion)",
			"harnesses":                     hresults,
			"functions_encoded":             fl,
			"bounds":                        bounds,
			"outside_bounds":                ps.Outside,
			"technique":                     "bounded symbolic execution of go/ssa of /repo's working tree, SMT (z3; cvc5 cross-check in thorough)",
			"native_build_secs":             nb.BuildSecs,
			"load_secs":                     env.LoadSecs,
		},
		"assumptions": append([]string{
			"engine models (DESIGN.md §2.3): in-memory file system, cooperative scheduler, model clock, C malloc/free as fresh objects, loghub as no-op (FATAL = fail-stop), insertion-ordered maps",
			"bounded: results hold for all inputs inside the stated bounds only",
		}, ps.Assumptions...),
		"wall_s":     time.Since(t0).Seconds(),
		"violations": violations,
	}
	eb, _ := json.MarshalIndent(ev, "", " ")
	os.MkdirAll(filepath.Join(outDir(), "evidence"), 0755)
	os.WriteFile(filepath.Join(outDir(), "evidence", *prop+".json"), eb, 0644)
	fmt.Printf("%s %s: harnesses=%d paths=%d violations=%d inconclusive=%d native_validated=%d wall=%.1fs\n", *prop, *tierName, len(hresults), totalPaths, violations, inconclusive, nativeOK, time.Since(t0).Seconds())
	if violations > 0 {
		return 1
	}
	if inconclusive > 0 {
		return 2
	}
	return 0
}

// trimModel drops the (many) symbolic fill bytes of modelled C allocations from a printed model.
func trimModel(m map[string]uint64) map[string]uint64 {
	o := map[string]uint64{}
	for k, v := range m {
		if !strings.HasPrefix(k, "cmem#") {
			o[k] = v
		}
	}
	return o
}

func max1(n int) int {
	if n < 1 {
		return 1
	}
	return n
}

func tail(s string, n int) string {
	ls := strings.Split(strings.TrimSpace(s), "\n")
	if len(ls) > n {
		ls = ls[len(ls)-n:]
	}
	return "    | " + strings.Join(ls, "\n    | ")
}

// runReplay re-runs a replay file (a counterexample or witness written by a check) against the
// NATIVE build of its harness in /repo's current working tree and prints what the real code
// does. Exit 1 if the recorded assertion fails (or the run panics / the allocator or
// AddressSanitizer aborts it), 0 if the run passes, 2 if it cannot be run.
func runReplay(path string, args []string) int {
	fs := newFlagSet("replay")
	repo := fs.String("repo", "/repo", "")
	fs.Parse(args)
	if vd := os.Getenv("VERIF_DIR"); vd != "" {
		verifDir = vd
	}
	b, err := os.ReadFile(path)
	if err != nil {
		fmt.Fprintln(os.Stderr, err)
		return 2
	}
	var rf struct {
		Harness  string `json:"harness"`
		Property string `json:"property"`
		Label    string `json:"label"`
	}
	if err := json.Unmarshal(b, &rf); err != nil {
		fmt.Fprintln(os.Stderr, "replay file:", err)
		return 2
	}
	var specs map[string]propSpec
	cb, err := os.ReadFile(filepath.Join(verifDir, "checks.json"))
	if err != nil || json.Unmarshal(cb, &specs) != nil {
		fmt.Fprintln(os.Stderr, "checks.json unreadable")
		return 2
	}
	var hs *harnessSpec
	for _, ps := range specs {
		for i := range ps.Harnesses {
			if ps.Harnesses[i].Name == rf.Harness {
				hs = &ps.Harnesses[i]
			}
		}
	}
	if hs == nil {
		fmt.Fprintf(os.Stderr, "harness %s is not registered in checks.json\n", rf.Harness)
		return 2
	}
	abs, _ := filepath.Abs(path)
	nb := &nativeBuilder{repo: *repo, hdir: filepath.Join(verifDir, "harness"), bins: map[string]string{}, errs: map[string]string{}}
	nr, err := nb.replay(hs.Pkg, abs, hs.NativeASan)
	if err != nil {
		fmt.Fprintln(os.Stderr, err)
		return 2
	}
	fmt.Print(nr.Raw)
	failed := len(nr.Violations) > 0 || nr.Panic != ""
	if !failed && strings.HasPrefix(rf.Label, "engine:memory-safety") && !hs.NativeASan {
		if nr2, err2 := nb.replay(hs.Pkg, abs, true); err2 == nil && nr2.Panic != "" {
			fmt.Print(nr2.Raw)
			nr, failed = nr2, true
		}
	}
	fmt.Printf("REPLAY property=%s harness=%s label=%q: violations=%v panic=%q\n", rf.Property, rf.Harness, rf.Label, nr.Violations, nr.Panic)
	if failed {
		fmt.Printf("VIOLATION property=%s replay=%s\n", rf.Property, abs)
		return 1
	}
	return 0
}
