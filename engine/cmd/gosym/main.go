// gosym: bounded symbolic execution of Go SSA (see /verif/DESIGN.md).
package main

import (
	"encoding/json"
	"flag"
	"fmt"
	"os"
	"sort"
	"strings"

	"gosym/interp"
)

func newFlagSet(name string) *flag.FlagSet { return flag.NewFlagSet(name, flag.ExitOnError) }

func main() {
	if len(os.Args) > 1 && os.Args[1] == "check" {
		os.Exit(runCheck(os.Args[2:]))
	}
	if len(os.Args) > 2 && os.Args[1] == "replay" {
		os.Exit(runReplay(os.Args[2], os.Args[3:]))
	}
	repo := flag.String("repo", "/repo", "repository under test")
	hdir := flag.String("harness-dir", "/verif/harness", "harness sources")
	pkg := flag.String("pkg", "store", "package (suffix under the module) holding the harness")
	names := flag.String("harness", "", "comma separated harness function names (or prefix*)")
	workers := flag.Int("workers", 8, "parallel workers")
	solver := flag.String("solver", "z3", "primary solver")
	second := flag.String("second", "", "second solver that must agree (thorough)")
	timeout := flag.Int("timeout-ms", 10000, "per-query timeout")
	maxPaths := flag.Int("max-paths", 0, "stop after this many paths (0 = no limit)")
	maxSecs := flag.Float64("max-seconds", 0, "wall-clock limit per harness")
	verbose := flag.Bool("v", false, "per-path log")
	samples := flag.Int("samples", 3, "path witnesses to keep")
	out := flag.String("out", "", "write JSON result here")
	flag.Parse()

	ov, err := interp.BuildOverlay(*hdir, *repo)
	if err != nil {
		fatal(err)
	}
	env, err := interp.Load(*repo, ov, []string{"./" + *pkg, "./zzvrt"}, "verif")
	if err != nil {
		fatal(err)
	}
	fmt.Fprintf(os.Stderr, "loaded in %.1fs\n", env.LoadSecs)
	var hs []string
	for _, n := range strings.Split(*names, ",") {
		n = strings.TrimSpace(n)
		if strings.HasSuffix(n, "*") {
			hs = append(hs, env.Harnesses(*pkg, strings.TrimSuffix(n, "*"))...)
		} else if n != "" {
			hs = append(hs, n)
		}
	}
	results := map[string]interface{}{}
	exit := 0
	for _, h := range hs {
		fn, err := env.Harness(*pkg, h)
		if err != nil {
			fatal(err)
		}
		r := env.Explore(fn, interp.ExploreOpts{Workers: *workers, Solver: *solver, Second: *second, TimeoutMs: *timeout,
			MaxPaths: *maxPaths, MaxSeconds: *maxSecs, Verbose: *verbose, SampleModels: *samples})
		var why []string
		for k, v := range r.InconclWhy {
			why = append(why, fmt.Sprintf("%dx %s", v, k))
		}
		sort.Strings(why)
		fmt.Printf("%s: paths=%d ok=%d cut=%d failstop=%d inconcl=%d engerr=%d viol=%d known=%d steps=%d queries=%d(sat %d unsat %d unk %d) solver=%.2fs wall=%.2fs exhaustive=%v %s\n",
			h, r.Paths, r.OK, r.Cut, r.FailStop, r.Inconcl, r.EngineErr, len(r.Violations), len(r.KnownHits), r.Steps,
			r.Stats.Queries, r.Stats.NSat, r.Stats.NUnsat, r.Stats.NUnknown, r.Stats.SolverSec, r.WallSecs, r.Exhaustive, r.StoppedWhy)
		for _, w := range why {
			fmt.Printf("   inconclusive: %s\n", w)
		}
		seenL := map[string]int{}
		for _, v := range r.ViolationInfos() {
			seenL[v.Label]++
			if seenL[v.Label] <= 2 {
				mm := map[string]uint64{}
				for k, x := range v.Model {
					if !strings.HasPrefix(k, "cmem#") {
						mm[k] = x
					}
				}
				fmt.Printf("   VIOLATION %s: %s model=%v choices=%v decisions=%d\n", v.Label, v.Detail, mm, v.Choices, len(v.Decisions))
			}
			exit = 1
		}
		for l, n := range seenL {
			fmt.Printf("   violations with label %q: %d\n", l, n)
		}
		seenK := map[string]int{}
		for _, v := range r.KnownInfos() {
			seenK[v.KnownID+"/"+v.Label]++
		}
		for l, n := range seenK {
			fmt.Printf("   known-finding hits %s: %d\n", l, n)
		}
		if *verbose || os.Getenv("GOSYM_FORKS") != "" {
			type kv struct {
				k string
				v int
			}
			var fk []kv
			for k, v := range r.ForkTags {
				fk = append(fk, kv{k, v})
			}
			sort.Slice(fk, func(i, j int) bool { return fk[i].v > fk[j].v })
			for i, x := range fk {
				if i >= 25 {
					break
				}
				fmt.Printf("   forks %6d at %s\n", x.v, x.k)
			}
		}
		var reached []string
		for k := range r.Reached {
			reached = append(reached, k)
		}
		sort.Strings(reached)
		fmt.Printf("   reached: %s\n", strings.Join(reached, ", "))
		results[h] = r
	}
	if *out != "" {
		b, _ := json.MarshalIndent(results, "", " ")
		os.WriteFile(*out, b, 0644)
	}
	os.Exit(exit)
}

func fatal(err error) {
	fmt.Fprintln(os.Stderr, "gosym:", err)
	os.Exit(2)
}
