#!/bin/sh
# usage: ./run_all.sh [quick|thorough] [properties...]: runs the registered checks one after another on /repo's
# working tree, rewrites evidence/<id>.json, prints one summary line per property.
cd "$(dirname "$0")" || exit 2
tier=${1:-quick}; [ $# -gt 0 ] && shift
props="$*"; [ -z "$props" ] && props="C01 C02 C03 C04 C05 C06 C07 C08 C09 C10 C11 C12 C13 C14 C15 C16 C17 C18"
mkdir -p .work/logs
for p in $props; do
  ./check $p $tier > .work/logs/$p.$tier.log 2>&1
  echo "$p exit=$? $(grep "^$p $tier:" .work/logs/$p.$tier.log) $(grep -c '^KNOWN-FINDING' .work/logs/$p.$tier.log) known"
  grep '^VIOLATION\|^INCONCLUSIVE\|^VACUOUS\|^HARNESS-FILE-DROPPED' .work/logs/$p.$tier.log | cut -c1-300
done
