#!/usr/bin/env python3
# Generates MANIFEST.json from checks.json + manifest_meta.json (kept in sync by hand).
import json
checks=json.load(open('/verif/checks.json'))
meta=json.load(open('/verif/manifest_meta.json'))
props=[json.loads(l)['id'] for l in open('/verif/properties.jsonl')]
m={"version":1,
 "setup_cmd":"cd /verif/engine && GOFLAGS=-mod=mod GOPROXY=off GOSUMDB=off GOTOOLCHAIN=local go build -o bin/gosym ./cmd/gosym",
 "hooks":meta["hooks"],
 "engines":[{"name":"gosym","path":"/verif/engine","serves_properties":sorted(checks.keys()),
   "kind_free_text":"bounded symbolic execution of go/ssa (fork of x/tools go/ssa/interp v0.29.0 with SMT terms), z3 4.8.12 primary, cvc5 cross-check in thorough; counterexamples and path witnesses replayed against the native build"}],
 "checks":[], "not_applicable":[], "notes":meta.get("notes","")}
for pid in props:
    if pid in checks:
        pm=meta["checks"].get(pid,{})
        m["checks"].append({
          "property_id":pid,
          "quick_cmd":"./check %s quick"%pid,
          "thorough_cmd":"./check %s thorough"%pid,
          "evidence_file":"/verif/evidence/%s.json"%pid,
          "replay_cmd_template":"./check --replay {path}",
          "engine":"gosym",
          "level_claimed":{"category":"model_checking","text":pm.get("text","bounded symbolic execution of the real functions; every assertion on every explored path decided by an SMT solver; holds for all inputs within the stated bounds only"),"design_ref":pm.get("design_ref","DESIGN.md §4 "+pid)},
          "level_note":pm.get("note","trusted: go/ssa construction, the engine's Go semantics (validated per run by replaying path witnesses natively), z3; environment stubs listed in the evidence file"),
          "technique":pm.get("technique","bounded symbolic execution (go/ssa -> SMT bit-vectors, z3), native replay of counterexamples")})
    else:
        m["not_applicable"].append({"property_id":pid,"reason":meta["not_applicable"].get(pid,"not yet covered by a solver-based check in this tree (see DESIGN.md)")})
json.dump(m,open('/verif/MANIFEST.json','w'),indent=1)
print("checks:",[c["property_id"] for c in m["checks"]])
